/* Stub omp.h for the simulated OpenMP runtime (simomp.c).  The repository only needs the
 * header to exist when _OPENMP is defined; the user-level API below is implemented by simomp
 * so that realistic edits of the parallel code still link. */
#ifndef SIMOMP_OMP_H
#define SIMOMP_OMP_H
#ifdef __cplusplus
extern "C" {
#endif
typedef struct { void *_lk; } omp_lock_t;
typedef struct { void *_lk; } omp_nest_lock_t;
typedef enum { omp_sched_static = 1, omp_sched_dynamic = 2, omp_sched_guided = 3, omp_sched_auto = 4 } omp_sched_t;
int omp_get_thread_num(void);
int omp_get_num_threads(void);
int omp_get_max_threads(void);
void omp_set_num_threads(int);
int omp_get_num_procs(void);
int omp_in_parallel(void);
int omp_get_dynamic(void);
void omp_set_dynamic(int);
int omp_get_nested(void);
void omp_set_nested(int);
int omp_get_thread_limit(void);
int omp_get_level(void);
double omp_get_wtime(void);
double omp_get_wtick(void);
void omp_set_schedule(omp_sched_t, int);
void omp_get_schedule(omp_sched_t *, int *);
void omp_init_lock(omp_lock_t *);
void omp_destroy_lock(omp_lock_t *);
void omp_set_lock(omp_lock_t *);
void omp_unset_lock(omp_lock_t *);
int omp_test_lock(omp_lock_t *);
void omp_init_nest_lock(omp_nest_lock_t *);
void omp_destroy_nest_lock(omp_nest_lock_t *);
void omp_set_nest_lock(omp_nest_lock_t *);
void omp_unset_nest_lock(omp_nest_lock_t *);
int omp_test_nest_lock(omp_nest_lock_t *);
#ifdef __cplusplus
}
#endif
#endif
