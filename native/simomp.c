/*
 * simomp — a simulated OpenMP runtime for deterministic simulation of the repository's
 * `#pragma omp parallel for` regions (DESIGN.md §3.1).
 *
 * clang lowers OpenMP pragmas to calls into libomp's ABI (__kmpc_*).  This file implements that
 * ABI on ONE OS thread: every simulated OpenMP thread is a ucontext coroutine, and a seeded
 * scheduler decides (a) how many threads a region gets, (b) which loop iterations go to which
 * thread in which chunks, (c) at which instrumented memory access / control-flow edge a thread is
 * pre-empted and (d) which thread runs next.  The repository's C files are compiled with
 * -fsanitize-coverage=trace-pc-guard,trace-loads,trace-stores so that every access in repo code
 * calls back into sim_event().  Nothing is left to the kernel scheduler; one seed is one execution.
 *
 * All decisions are recorded (per-thread chunk plan + list of switches) so that a run can be
 * replayed from the explicit decision trace, independent of the PRNG.
 */
#define _GNU_SOURCE
#include <stdarg.h>
#include <stddef.h>
#include <stdint.h>
#include <stdio.h>
#include <stdlib.h>
#include <string.h>
#include <ucontext.h>
#include <sys/mman.h>
#include <unistd.h>

#include "simomp.h"

void *__real_malloc(size_t);
void __real_free(void *);
void *__real_calloc(size_t, size_t);
void *__real_realloc(void *, size_t);

#define MAXT 64
#define STACK_SZ (256 * 1024)
#define GUARD_SZ (4096)
#define SLOT_SZ (STACK_SZ + GUARD_SZ)
#define ARENA_SZ (64u * 1024u * 1024u)
#define REDZONE 64
#define MAXLOOPS 64
#define MAXLOCKS 64
#define SHADOW_BITS 16
#define SHADOW_SZ (1u << SHADOW_BITS)
#define MAXREG 32

typedef int kmp_int32;
typedef unsigned int kmp_uint32;
typedef long long kmp_int64;
typedef unsigned long long kmp_uint64;
typedef struct ident ident_t;
typedef void (*kmpc_micro)(kmp_int32 *gtid, kmp_int32 *btid, ...);

enum { TS_UNUSED = 0, TS_RUNNABLE, TS_BARRIER, TS_LOCK, TS_DONE };

typedef struct { long lb, ub; } chunk_t;

typedef struct {
    chunk_t *v; long n, cap;
} chunkvec;

typedef struct {
    ucontext_t ctx;
    int state;
    int tid;
    int loop_ord;    /* how many worksharing loops this thread has entered */
    int single_ord;
    long nchunks;    /* chunks received (non-empty) */
    long served;     /* dispatch_next calls served (replay index) */
    int denied;      /* told "no more work" for the current loop */
    uint64_t events; /* events executed by this thread */
    void *waitlock;
    int nested;      /* depth of nested (serialised) parallel regions this thread is in */
    int solo_init; long solo_lb, solo_ub, solo_st;   /* whole-loop hand-out inside nested regions */
    chunkvec plan;   /* recorded (or replayed) chunks for this thread, all loops concatenated */
} sim_thread;

typedef struct {
    int init;
    long lb, ub, st;     /* normalised: iteration k -> lb + k*st, N iterations */
    long N;
    long next;           /* on-demand policies: next unassigned iteration */
    int kind; long chunk;
    /* pre-planned policies */
    chunkvec pre[MAXT];
    long prepos[MAXT];
    int static_planned; long stat_a[MAXT], stat_b[MAXT];
    unsigned char *covered;   /* one byte per iteration: handed out? */
    long ncovered;
    int overlap;
} sim_loop;

typedef struct { uint64_t ev; int to; } switch_t;

typedef struct { uintptr_t key; uint8_t first; uint8_t flags; } shadow_t; /* flags: 1=multi-thread 2=written 4=racy */

typedef struct { void *addr; int owner; int depth; } simlock;

typedef struct { char *p; size_t sz; size_t off; int state; int owner; int region; unsigned char red; } alloc_t; /* state 1 live 2 freed */

static struct {
    int inited;
    /* configuration */
    uint64_t seed;
    int cfg_T;
    int loop_kind; long loop_chunk;
    int pre_kind; long pre_param;
    uint64_t budget;
    uint64_t est_events;
    int shadow_on;
    int replay;
    /* region state */
    int active;
    int in_rt;            /* inside runtime code: callbacks ignored */
    int T;
    int cur;
    sim_thread th[MAXT];
    ucontext_t main_ctx;
    char *stacks;
    uint64_t event;
    uint64_t next_ev;      /* next event number at which sched_point() must be consulted */
    uint64_t rng;
    uint64_t rng_chunks;
    sim_loop loops[MAXLOOPS];
    int nloops;
    simlock locks[MAXLOCKS];
    int nlocks;
    int status;
    int region_count;
    char *fork_frame;
    /* PCT */
    uint64_t pct[8]; int npct; int pctpos;
    /* stall */
    int stall_tid; uint64_t stall_at; int stall_on;
    /* round robin fallback */
    int fair;
    /* replay data */
    switch_t *rsw; long nrsw, rswpos;
    /* recorded */
    switch_t *sw; long nsw, capsw;
    /* counting mode (serial code, no scheduling) */
    int counting; uint64_t count_events;
    /* digest */
    uint64_t acc_digest, sched_digest;
    /* shadow */
    shadow_t *shadow; long nshadow_racy; long nshadow_used; int shadow_overflow;
    /* arena */
    char *arena; size_t arena_off;
    alloc_t *allocs; long nallocs, capallocs;
    /* registered regions */
    struct { char *p; size_t sz; } reg[MAXREG]; int nreg;
    /* num_threads clause */
    int pushed_T;
    int max_threads;
    simomp_stats_t st;
} S;

/* ------------------------------------------------------------------------------------------ */

static inline uint64_t splitmix(uint64_t *s) {
    uint64_t z = (*s += 0x9E3779B97F4A7C15ull);
    z = (z ^ (z >> 30)) * 0xBF58476D1CE4E5B9ull;
    z = (z ^ (z >> 27)) * 0x94D049BB133111EBull;
    return z ^ (z >> 31);
}
static inline uint64_t rnd(uint64_t *s, uint64_t n) { return n ? splitmix(s) % n : 0; }
static inline void fnv(uint64_t *h, uint64_t v) { *h = (*h ^ v) * 0x100000001b3ull; }

static void die(const char *msg) {
    fprintf(stderr, "SIMOMP-HARNESS-ERROR: %s\n", msg);
    _exit(2);
}

static void cv_push(chunkvec *c, long lb, long ub) {
    if (c->n == c->cap) {
        c->cap = c->cap ? c->cap * 2 : 16;
        c->v = (chunk_t *)__real_realloc(c->v, sizeof(chunk_t) * c->cap);
        if (!c->v) die("oom");
    }
    c->v[c->n].lb = lb; c->v[c->n].ub = ub; c->n++;
}

static void sim_init(void) {
    if (S.inited) return;
    S.inited = 1;
    S.stacks = (char *)mmap(NULL, (size_t)MAXT * SLOT_SZ, PROT_READ | PROT_WRITE,
                            MAP_PRIVATE | MAP_ANONYMOUS | MAP_NORESERVE, -1, 0);
    if (S.stacks == MAP_FAILED) die("mmap stacks");
    for (int i = 0; i < MAXT; i++) mprotect(S.stacks + (size_t)i * SLOT_SZ, GUARD_SZ, PROT_NONE);
    S.arena = (char *)mmap(NULL, ARENA_SZ, PROT_READ | PROT_WRITE, MAP_PRIVATE | MAP_ANONYMOUS | MAP_NORESERVE, -1, 0);
    if (S.arena == MAP_FAILED) die("mmap arena");
    S.shadow = (shadow_t *)__real_calloc(SHADOW_SZ, sizeof(shadow_t));
    S.cfg_T = 2; S.loop_kind = SIMOMP_LOOP_DYNAMIC; S.loop_chunk = 1; S.pre_kind = SIMOMP_PRE_BERNOULLI; S.pre_param = 16;
    S.budget = 50ull * 1000 * 1000; S.max_threads = 4;
}

/* ---- public configuration API ------------------------------------------------------------- */

void simomp_reset(void) {
    sim_init();
    S.active = 0; S.in_rt = 0; S.status = 0; S.event = 0; S.region_count = 0;
    S.replay = 0; S.nrsw = 0; S.rswpos = 0; S.nsw = 0;
    S.acc_digest = 0xcbf29ce484222325ull; S.sched_digest = 0xcbf29ce484222325ull;
    for (int i = 0; i < MAXT; i++) { S.th[i].plan.n = 0; S.th[i].state = TS_UNUSED; S.th[i].served = 0; }
    S.nlocks = 0; S.pushed_T = 0; S.counting = 0; S.fair = 0;
    S.npct = 0; S.stall_on = 0; S.shadow_on = 0;
    memset(&S.st, 0, sizeof S.st);
    /* arena: keep allocations that are still live (there should be none between runs) */
    S.arena_off = 0; S.nallocs = 0;
    S.nreg = 0;
}
void simomp_set_seed(uint64_t seed) { S.seed = seed; }
void simomp_set_threads(int T) { if (T < 1) T = 1; if (T > MAXT) T = MAXT; S.cfg_T = T; S.max_threads = T; }
void simomp_set_loop_policy(int kind, long chunk) { S.loop_kind = kind; S.loop_chunk = chunk < 1 ? 1 : chunk; }
void simomp_set_preempt_policy(int kind, long param) { S.pre_kind = kind; S.pre_param = param; }
void simomp_set_budget(uint64_t b) { S.budget = b; }
void simomp_set_estimate(uint64_t e) { S.est_events = e; }
void simomp_set_shadow(int on) { S.shadow_on = on; }
void simomp_shadow_clear(void) { sim_init(); memset(S.shadow, 0, sizeof(shadow_t) * SHADOW_SZ); S.nshadow_racy = 0; S.nshadow_used = 0; S.shadow_overflow = 0; }
void simomp_register_region(void *p, size_t sz) { if (S.nreg < MAXREG) { S.reg[S.nreg].p = (char *)p; S.reg[S.nreg].sz = sz; S.nreg++; } }

void simomp_count_begin(void) { sim_init(); S.counting = 1; S.count_events = 0; }
uint64_t simomp_count_end(void) { S.counting = 0; return S.count_events; }

void simomp_replay_begin(int T) { S.replay = 1; simomp_set_threads(T); S.nrsw = 0; S.rswpos = 0; for (int i = 0; i < MAXT; i++) S.th[i].plan.n = 0; }
void simomp_replay_plan(int tid, long lb, long ub) { if (tid >= 0 && tid < MAXT) cv_push(&S.th[tid].plan, lb, ub); }
void simomp_replay_switch(uint64_t ev, int to) {
    static long cap = 0;
    if (S.nrsw == cap) { cap = cap ? cap * 2 : 64; S.rsw = (switch_t *)__real_realloc(S.rsw, sizeof(switch_t) * cap); }
    S.rsw[S.nrsw].ev = ev; S.rsw[S.nrsw].to = to; S.nrsw++;
}

int simomp_status(void) { return S.status; }
const simomp_stats_t *simomp_stats(void) { return &S.st; }
uint64_t simomp_events(void) { return S.event; }
uint64_t simomp_access_digest(void) { return S.acc_digest; }
uint64_t simomp_sched_digest(void) { return S.sched_digest; }
int simomp_threads_used(void) { return S.T; }
long simomp_trace_nswitch(void) { return S.nsw; }
void simomp_trace_switch(long i, uint64_t *ev, int *to) { *ev = S.sw[i].ev; *to = S.sw[i].to; }
long simomp_trace_nplan(int tid) { return S.th[tid].plan.n; }
void simomp_trace_plan(int tid, long j, long *lb, long *ub) { *lb = S.th[tid].plan.v[j].lb; *ub = S.th[tid].plan.v[j].ub; }
long simomp_shadow_racy(void) { return S.nshadow_racy; }

/* heap checks: returns bitmask 1=redzone damaged 2=double free seen 4=leak(live allocs) */
int simomp_heap_check(long *leaks) {
    int r = 0; long live = 0;
    for (long i = 0; i < S.nallocs; i++) {
        alloc_t *a = &S.allocs[i];
        unsigned char *p = (unsigned char *)a->p;
        for (int k = 0; k < REDZONE; k++) {
            if (p[-1 - k] != a->red || p[a->sz + k] != a->red) { r |= 1; break; }
        }
        if (a->state == 1) live++;
    }
    if (S.st.double_free) r |= 2;
    if (live) r |= 4;
    if (leaks) *leaks = live;
    return r;
}

/* ---- scheduler ---------------------------------------------------------------------------- */

static void record_switch(uint64_t ev, int to) {
    if (S.nsw == S.capsw) {
        S.capsw = S.capsw ? S.capsw * 2 : 256;
        S.sw = (switch_t *)__real_realloc(S.sw, sizeof(switch_t) * S.capsw);
        if (!S.sw) die("oom");
    }
    S.sw[S.nsw].ev = ev; S.sw[S.nsw].to = to; S.nsw++;
    fnv(&S.sched_digest, ev * 131 + (uint64_t)to);
}

static int runnable(int t) {
    if (S.th[t].state != TS_RUNNABLE) return 0;
    return 1;
}

static void compute_next_ev(void) {
    uint64_t n = UINT64_MAX;
    if (S.replay) {
        while (S.rswpos < S.nrsw && S.rsw[S.rswpos].ev < S.event) S.rswpos++;
        if (S.rswpos < S.nrsw) n = S.rsw[S.rswpos].ev;
        if (S.budget && S.budget < n) n = S.budget;
        S.next_ev = n;
        return;
    }
    if (S.fair) {
        n = S.event + 997;
    } else {
        switch (S.pre_kind) {
        case SIMOMP_PRE_NONE: break;
        case SIMOMP_PRE_BERNOULLI:
        case SIMOMP_PRE_STALL:
        case SIMOMP_PRE_RACE: {
            long k = S.pre_param < 1 ? 1 : S.pre_param;
            n = S.event + 1 + rnd(&S.rng, (uint64_t)(2 * k - 1));
            break; }
        case SIMOMP_PRE_PCT:
            while (S.pctpos < S.npct && S.pct[S.pctpos] <= S.event) S.pctpos++;
            if (S.pctpos < S.npct) n = S.pct[S.pctpos];
            break;
        }
        if (S.budget / 2 > S.event && S.budget / 2 < n) n = S.budget / 2;
    }
    if (S.stall_on == 1 && S.stall_at > S.event && S.stall_at < n) n = S.stall_at;
    if (S.budget && S.budget < n) n = S.budget;
    S.next_ev = n;
}

/* Pick the thread to run next. `forced` = the current thread cannot continue. Returns -1 if none. */
static int pick_next(int forced) {
    int cand[MAXT], nc = 0;
    int others = 0;
    for (int t = 0; t < S.T; t++) {
        if (!runnable(t)) continue;
        if (S.stall_on == 2 && t == S.stall_tid) continue;
        if (!forced && t == S.cur) continue;
        cand[nc++] = t;
    }
    (void)others;
    if (nc == 0 && S.stall_on == 2 && runnable(S.stall_tid) && (forced || S.stall_tid != S.cur)) {
        /* everybody else is done or blocked: the stalled thread wakes up */
        S.stall_on = 3;
        cand[nc++] = S.stall_tid;
    }
    if (nc == 0) return -1;
    if (S.replay) {
        if (S.rswpos < S.nrsw && S.rsw[S.rswpos].ev == S.event) {
            int to = S.rsw[S.rswpos].to;
            S.rswpos++;
            for (int i = 0; i < nc; i++) if (cand[i] == to) return to;
        }
        if (!forced) return -1;   /* listed target not runnable: stay */
        return cand[0];
    }
    if (S.fair) {
        for (int d = 1; d <= S.T; d++) { int t = (S.cur + d) % S.T; for (int i = 0; i < nc; i++) if (cand[i] == t) return t; }
    }
    return cand[rnd(&S.rng, (uint64_t)nc)];
}

static void release_barrier_if_complete(void) {
    int waiting = 0, live = 0;
    for (int t = 0; t < S.T; t++) {
        if (S.th[t].state == TS_DONE) continue;
        live++;
        if (S.th[t].state == TS_BARRIER) waiting++;
    }
    if (live > 0 && waiting == live) {
        for (int t = 0; t < S.T; t++) if (S.th[t].state == TS_BARRIER) S.th[t].state = TS_RUNNABLE;
        S.st.barriers++;
    }
}

/* Called on a simulated thread's stack: give up the CPU. The main context runs the scheduler loop. */
static void yield_to_main(void) {
    int me = S.cur;
    swapcontext(&S.th[me].ctx, &S.main_ctx);
}

/* Pre-emption point reached inside a simulated thread. */
static void sched_point(void) {
    S.in_rt = 1;
    if (S.budget && S.event >= S.budget) {
        S.status = SIMOMP_ST_BUDGET;
        yield_to_main();   /* main aborts the region */
    }
    if (!S.fair && !S.replay && S.budget && S.event >= S.budget / 2) { S.fair = 1; S.st.fair_fallback++; }
    int forced = 0;
    if (S.stall_on == 1 && S.event >= S.stall_at) {
        S.stall_on = 2;                 /* from now on the stalled thread is not schedulable */
        if (S.cur == S.stall_tid) { forced = 1; S.st.stalls++; }
    }
    int nx = pick_next(forced);
    if (nx >= 0 && nx != S.cur) {
        int me = S.cur;
        record_switch(S.event, nx);
        S.st.switches++;
        S.cur = nx;
        compute_next_ev();
        S.in_rt = 0;
        swapcontext(&S.th[me].ctx, &S.main_ctx);
        return;
    }
    compute_next_ev();
    S.in_rt = 0;
}

/* Block the current thread (state already set) and run somebody else. */
static void block_current(void) {
    int me = S.cur;
    release_barrier_if_complete();
    if (S.th[me].state == TS_RUNNABLE) return;
    int nx = pick_next(1);
    if (nx < 0) {
        S.status = SIMOMP_ST_DEADLOCK;
        swapcontext(&S.th[me].ctx, &S.main_ctx);
        return;
    }
    record_switch(S.event, nx);
    S.st.forced_switches++;
    S.cur = nx;
    compute_next_ev();
    swapcontext(&S.th[me].ctx, &S.main_ctx);
}

/* ---- event callbacks ---------------------------------------------------------------------- */

static inline uint64_t norm_addr(uintptr_t a) {
    if (a >= (uintptr_t)S.arena && a < (uintptr_t)S.arena + ARENA_SZ) return (1ull << 56) | (a - (uintptr_t)S.arena);
    if (a >= (uintptr_t)S.stacks && a < (uintptr_t)S.stacks + (size_t)MAXT * SLOT_SZ) return (2ull << 56) | (a - (uintptr_t)S.stacks);
    for (int i = 0; i < S.nreg; i++)
        if (a >= (uintptr_t)S.reg[i].p && a < (uintptr_t)S.reg[i].p + S.reg[i].sz)
            return ((uint64_t)(0x10 + i) << 56) | (a - (uintptr_t)S.reg[i].p);
    if (S.fork_frame) {
        intptr_t d = (intptr_t)((uintptr_t)S.fork_frame - a);
        if (d > -(1 << 20) && d < (1 << 20)) return (3ull << 56) | (uint64_t)(d + (1 << 20));
    }
    return 4ull << 56;
}

static inline void shadow_access(uintptr_t a, int is_write) {
    /* a thread's own stack is private */
    uintptr_t sb = (uintptr_t)S.stacks + (size_t)S.cur * SLOT_SZ;
    if (a >= sb && a < sb + SLOT_SZ) return;
    uintptr_t g = a >> 3;
    uint32_t h = (uint32_t)((g * 0x9E3779B97F4A7C15ull) >> (64 - SHADOW_BITS));
    for (int probe = 0; probe < 64; probe++) {
        shadow_t *e = &S.shadow[(h + probe) & (SHADOW_SZ - 1)];
        if (e->key == 0) {
            if (S.pre_kind == SIMOMP_PRE_RACE && !S.shadow_on) return; /* pass 2: lookup only */
            e->key = g; e->first = (uint8_t)S.cur; e->flags = is_write ? 2 : 0; S.nshadow_used++;
            return;
        }
        if (e->key == g) {
            if (S.shadow_on) {
                if (e->first != (uint8_t)S.cur) e->flags |= 1;
                if (is_write) e->flags |= 2;
                if ((e->flags & 3) == 3 && !(e->flags & 4)) { e->flags |= 4; S.nshadow_racy++; }
            }
            if ((e->flags & 4) && S.pre_kind == SIMOMP_PRE_RACE && !S.replay) {
                /* race-directed: force a scheduling decision right here with probability 1/2 */
                if (splitmix(&S.rng) & 1) { S.st.race_directed++; S.next_ev = S.event; }
            }
            return;
        }
    }
    S.shadow_overflow = 1;
}

static inline void sim_event(int kind, void *addr) {
    if (S.counting) { S.count_events++; return; }
    if (!S.active || S.in_rt) return;
    S.event++;
    S.th[S.cur].events++;
    fnv(&S.acc_digest, ((uint64_t)S.cur << 60) ^ ((uint64_t)kind << 57) ^ (addr ? norm_addr((uintptr_t)addr) : 0));
    if (addr && (S.shadow_on || S.pre_kind == SIMOMP_PRE_RACE)) shadow_access((uintptr_t)addr, kind == 2);
    if (S.event >= S.next_ev) sched_point();
}

void __sanitizer_cov_trace_pc_guard_init(uint32_t *start, uint32_t *stop) { for (uint32_t *p = start; p < stop; p++) *p = 1; }
void __sanitizer_cov_trace_pc_guard(uint32_t *guard) { (void)guard; sim_event(0, NULL); }
void __sanitizer_cov_load1(void *a) { sim_event(1, a); }
void __sanitizer_cov_load2(void *a) { sim_event(1, a); }
void __sanitizer_cov_load4(void *a) { sim_event(1, a); }
void __sanitizer_cov_load8(void *a) { sim_event(1, a); }
void __sanitizer_cov_load16(void *a) { sim_event(1, a); }
void __sanitizer_cov_store1(void *a) { sim_event(2, a); }
void __sanitizer_cov_store2(void *a) { sim_event(2, a); }
void __sanitizer_cov_store4(void *a) { sim_event(2, a); }
void __sanitizer_cov_store8(void *a) { sim_event(2, a); }
void __sanitizer_cov_store16(void *a) { sim_event(2, a); }

/* ---- allocator seam (linked with -Wl,--wrap=malloc,--wrap=free,--wrap=calloc,--wrap=realloc) */

void *__real_malloc(size_t);
void __real_free(void *);
void *__real_calloc(size_t, size_t);
void *__real_realloc(void *, size_t);

static int in_arena(void *p) { return S.arena && (char *)p >= S.arena && (char *)p < S.arena + ARENA_SZ; }

/* junk bytes: fresh blocks, red zones, freed blocks.  The serial twin and the parallel run use DIFFERENT variants, so
   that a result which depends on memory the code does not own (uninitialised, in front of or behind a block, freed)
   differs between the two and is reported, deterministically, instead of going unnoticed because both saw the same junk. */
static unsigned char J_fill = 0xA5, J_red = 0xCB, J_freed = 0xDD;
void simomp_set_junk(int variant) {
    if (variant) { J_fill = 0x5A; J_red = 0x34; J_freed = 0x22; } else { J_fill = 0xA5; J_red = 0xCB; J_freed = 0xDD; }
}

static void *arena_alloc(size_t sz, int fill) {
    size_t need = REDZONE + ((sz + 15) & ~(size_t)15) + REDZONE;
    if (S.arena_off + need + 16 > ARENA_SZ) die("arena exhausted");
    char *base = S.arena + S.arena_off;
    S.arena_off += need;
    memset(base, J_red, need);
    char *p = base + REDZONE;
    memset(p, fill, sz);
    if (S.nallocs == S.capallocs) {
        S.capallocs = S.capallocs ? S.capallocs * 2 : 1024;
        S.allocs = (alloc_t *)__real_realloc(S.allocs, sizeof(alloc_t) * S.capallocs);
        if (!S.allocs) die("oom");
    }
    alloc_t *a = &S.allocs[S.nallocs++];
    a->p = p; a->sz = sz; a->off = (size_t)(p - S.arena); a->state = 1; a->owner = S.cur; a->region = S.region_count; a->red = J_red;
    S.st.allocs++;
    return p;
}

static alloc_t *arena_find(void *p) {
    for (long i = S.nallocs - 1; i >= 0; i--) if (S.allocs[i].p == (char *)p) return &S.allocs[i];
    return NULL;
}

void *__wrap_malloc(size_t sz) {
    if ((!S.active && !S.counting) || S.in_rt) return __real_malloc(sz);
    S.in_rt = 1;
    void *p = arena_alloc(sz, J_fill);
    S.in_rt = 0;
    sim_event(3, NULL);
    return p;
}
void *__wrap_calloc(size_t n, size_t m) {
    if ((!S.active && !S.counting) || S.in_rt) return __real_calloc(n, m);
    S.in_rt = 1;
    void *p = arena_alloc(n * m, 0);
    S.in_rt = 0;
    sim_event(3, NULL);
    return p;
}
void __wrap_free(void *p) {
    if (!p) return;
    if (!in_arena(p)) { __real_free(p); return; }
    alloc_t *a = arena_find(p);
    if (!a) { S.st.bad_free++; return; }
    if (a->state == 2) { S.st.double_free++; return; }
    a->state = 2;
    memset(a->p, J_freed, a->sz);
    S.st.frees++;
    if (S.active && !S.in_rt) sim_event(3, NULL);
}
void *__wrap_realloc(void *p, size_t sz) {
    if (!p) return __wrap_malloc(sz);
    if (!in_arena(p)) {
        if (!S.active || S.in_rt) return __real_realloc(p, sz);
        /* growing a block from outside the region inside it: keep it outside */
        return __real_realloc(p, sz);
    }
    alloc_t *a = arena_find(p);
    size_t old = a ? a->sz : 0;
    int save = S.in_rt; S.in_rt = 1;
    void *q = arena_alloc(sz, J_fill);
    memcpy(q, p, old < sz ? old : sz);
    S.in_rt = save;
    __wrap_free(p);
    return q;
}

/* ---- threads ------------------------------------------------------------------------------ */

static kmpc_micro g_fn; static int g_argc; static void *g_args[32];

static void call_micro(kmp_int32 *g, kmp_int32 *b) {
    void **a = g_args;
    switch (g_argc) {
    case 0: g_fn(g, b); break;
    case 1: g_fn(g, b, a[0]); break;
    case 2: g_fn(g, b, a[0], a[1]); break;
    case 3: g_fn(g, b, a[0], a[1], a[2]); break;
    case 4: g_fn(g, b, a[0], a[1], a[2], a[3]); break;
    case 5: g_fn(g, b, a[0], a[1], a[2], a[3], a[4]); break;
    case 6: g_fn(g, b, a[0], a[1], a[2], a[3], a[4], a[5]); break;
    case 7: g_fn(g, b, a[0], a[1], a[2], a[3], a[4], a[5], a[6]); break;
    case 8: g_fn(g, b, a[0], a[1], a[2], a[3], a[4], a[5], a[6], a[7]); break;
    case 9: g_fn(g, b, a[0], a[1], a[2], a[3], a[4], a[5], a[6], a[7], a[8]); break;
    case 10: g_fn(g, b, a[0], a[1], a[2], a[3], a[4], a[5], a[6], a[7], a[8], a[9]); break;
    case 11: g_fn(g, b, a[0], a[1], a[2], a[3], a[4], a[5], a[6], a[7], a[8], a[9], a[10]); break;
    case 12: g_fn(g, b, a[0], a[1], a[2], a[3], a[4], a[5], a[6], a[7], a[8], a[9], a[10], a[11]); break;
    case 13: g_fn(g, b, a[0], a[1], a[2], a[3], a[4], a[5], a[6], a[7], a[8], a[9], a[10], a[11], a[12]); break;
    case 14: g_fn(g, b, a[0], a[1], a[2], a[3], a[4], a[5], a[6], a[7], a[8], a[9], a[10], a[11], a[12], a[13]); break;
    case 15: g_fn(g, b, a[0], a[1], a[2], a[3], a[4], a[5], a[6], a[7], a[8], a[9], a[10], a[11], a[12], a[13], a[14]); break;
    case 16: g_fn(g, b, a[0], a[1], a[2], a[3], a[4], a[5], a[6], a[7], a[8], a[9], a[10], a[11], a[12], a[13], a[14], a[15]); break;
    case 17: g_fn(g, b, a[0], a[1], a[2], a[3], a[4], a[5], a[6], a[7], a[8], a[9], a[10], a[11], a[12], a[13], a[14], a[15], a[16]); break;
    case 18: g_fn(g, b, a[0], a[1], a[2], a[3], a[4], a[5], a[6], a[7], a[8], a[9], a[10], a[11], a[12], a[13], a[14], a[15], a[16], a[17]); break;
    case 19: g_fn(g, b, a[0], a[1], a[2], a[3], a[4], a[5], a[6], a[7], a[8], a[9], a[10], a[11], a[12], a[13], a[14], a[15], a[16], a[17], a[18]); break;
    case 20: g_fn(g, b, a[0], a[1], a[2], a[3], a[4], a[5], a[6], a[7], a[8], a[9], a[10], a[11], a[12], a[13], a[14], a[15], a[16], a[17], a[18], a[19]); break;
    default: die("microtask with more than 20 shared arguments");
    }
}

static void thread_main(int tid) {
    kmp_int32 g = tid, b = tid;
    S.in_rt = 0;
    call_micro(&g, &b);
    S.in_rt = 1;
    S.th[tid].state = TS_DONE;
    release_barrier_if_complete();
    /* hand over: main picks the next */
    S.cur = -1 - tid;
    swapcontext(&S.th[tid].ctx, &S.main_ctx);
    die("resumed a finished thread");
}

void __kmpc_fork_call(ident_t *loc, kmp_int32 argc, kmpc_micro fn, ...) {
    (void)loc;
    sim_init();
    va_list ap;
    void *args[32];
    if (argc > 20) die("too many shared args");
    va_start(ap, fn);
    for (int i = 0; i < argc; i++) args[i] = va_arg(ap, void *);
    va_end(ap);
    if (S.active || S.counting) {
        /* nested region (or serial counting mode): serialise with a team of one, inline */
        kmp_int32 g = S.active ? S.cur : 0, b = 0;
        kmpc_micro sf = g_fn; int sa = g_argc; void *sv[32]; memcpy(sv, g_args, sizeof sv);
        g_fn = fn; g_argc = argc; memcpy(g_args, args, sizeof(void *) * argc);
        S.th[g].nested++;
        call_micro(&g, &b);
        S.th[g].nested--;
        g_fn = sf; g_argc = sa; memcpy(g_args, sv, sizeof sv);
        return;
    }
    g_fn = fn; g_argc = argc; memcpy(g_args, args, sizeof(void *) * argc);
    S.in_rt = 1;
    S.region_count++;
    S.fork_frame = (char *)__builtin_frame_address(0);
    S.T = S.pushed_T ? S.pushed_T : S.cfg_T; S.pushed_T = 0;
    if (S.T > MAXT) S.T = MAXT;
    S.rng = S.seed ^ 0x7468726561647300ull ^ ((uint64_t)S.region_count << 32);
    S.rng_chunks = S.seed ^ 0x6368756e6b730000ull ^ ((uint64_t)S.region_count << 32);
    for (int i = 0; i < MAXLOOPS; i++) S.loops[i].init = 0;
    for (int t = 0; t < S.T; t++) {
        sim_thread *th = &S.th[t];
        getcontext(&th->ctx);
        th->ctx.uc_stack.ss_sp = S.stacks + (size_t)t * SLOT_SZ + GUARD_SZ;
        th->ctx.uc_stack.ss_size = STACK_SZ;
        th->ctx.uc_link = NULL;
        makecontext(&th->ctx, (void (*)(void))thread_main, 1, t);
        th->state = TS_RUNNABLE; th->tid = t; th->nested = 0; th->solo_init = 0; th->loop_ord = 0; th->single_ord = 0; th->nchunks = 0; th->denied = 0; th->events = 0;
        if (!S.replay) th->plan.n = 0;
        th->served = 0;
    }
    /* pre-emption policy set-up */
    S.fair = 0; S.npct = 0; S.pctpos = 0; S.stall_on = 0;
    if (!S.replay) {
        if (S.pre_kind == SIMOMP_PRE_PCT) {
            int d = (int)(S.pre_param < 0 ? 0 : (S.pre_param > 8 ? 8 : S.pre_param));
            uint64_t est = S.est_events ? S.est_events : 10000;
            for (int i = 0; i < d; i++) S.pct[i] = S.event + 1 + rnd(&S.rng, est);
            for (int i = 0; i < d; i++) for (int j = i + 1; j < d; j++) if (S.pct[j] < S.pct[i]) { uint64_t x = S.pct[i]; S.pct[i] = S.pct[j]; S.pct[j] = x; }
            S.npct = d;
        } else if (S.pre_kind == SIMOMP_PRE_STALL) {
            uint64_t est = S.est_events ? S.est_events : 10000;
            S.stall_tid = (int)rnd(&S.rng, (uint64_t)S.T);
            S.stall_at = S.event + 1 + rnd(&S.rng, est);
            S.stall_on = 1;
        }
    }
    S.active = 1;
    S.cur = S.replay ? 0 : (int)rnd(&S.rng, (uint64_t)S.T);
    if (S.replay && S.rswpos < S.nrsw && S.rsw[S.rswpos].ev == S.event && S.rsw[S.rswpos].to < S.T) { S.cur = S.rsw[S.rswpos].to; S.rswpos++; }
    record_switch(S.event, S.cur);
    compute_next_ev();
    /* scheduler loop (main context) */
    for (;;) {
        int t = S.cur;
        if (t < 0) {
            /* the thread -1-t finished: pick the next one */
            S.cur = -1 - t;
            int nx = pick_next(1);
            if (nx < 0) {
                int live = 0;
                for (int k = 0; k < S.T; k++) if (S.th[k].state != TS_DONE) live++;
                if (live) S.status = SIMOMP_ST_DEADLOCK;
                break;
            }
            record_switch(S.event, nx);
            S.st.forced_switches++;
            S.cur = nx;
            compute_next_ev();
            t = nx;
        }
        if (S.status) break;
        S.in_rt = 0;
        swapcontext(&S.main_ctx, &S.th[t].ctx);
        S.in_rt = 1;
        if (S.status) break;
    }
    S.active = 0;
    if (!S.status) {
        for (int i = 0; i < MAXLOOPS; i++) {
            sim_loop *L = &S.loops[i];
            if (!L->init) continue;
            if (L->overlap || L->ncovered != L->N) {
                if (S.replay) S.status = SIMOMP_ST_BADPLAN;
                else die("internal: loop iterations not handed out exactly once");
            }
        }
    }
    for (int i = 0; i < MAXLOOPS; i++) if (S.loops[i].init && S.loops[i].covered) { __real_free(S.loops[i].covered); S.loops[i].covered = NULL; }
    for (int i = 0; i < MAXLOOPS; i++) if (S.loops[i].init) for (int t = 0; t < MAXT; t++) if (S.loops[i].pre[t].v) { __real_free(S.loops[i].pre[t].v); S.loops[i].pre[t].v = NULL; S.loops[i].pre[t].cap = 0; S.loops[i].pre[t].n = 0; }
    S.in_rt = 0;
    S.st.regions++;
    for (int t = 0; t < S.T; t++) {
        if (S.th[t].nchunks == 0) S.st.threads_without_chunk++;
        if (S.th[t].events > 0) S.st.threads_ran++;
    }
    S.st.events = S.event;
}

void __kmpc_push_num_threads(ident_t *loc, kmp_int32 gtid, kmp_int32 n) { (void)loc; (void)gtid; if (n >= 1) S.pushed_T = n > MAXT ? MAXT : n; }
kmp_int32 __kmpc_global_thread_num(ident_t *loc) { (void)loc; return S.active ? S.cur : 0; }
void __kmpc_serialized_parallel(ident_t *loc, kmp_int32 gtid) { (void)loc; (void)gtid; }
void __kmpc_end_serialized_parallel(ident_t *loc, kmp_int32 gtid) { (void)loc; (void)gtid; }
void __kmpc_flush(ident_t *loc) { (void)loc; sim_event(4, NULL); }

/* ---- worksharing loops -------------------------------------------------------------------- */

static sim_loop *enter_loop(int tid, long lb, long ub, long st) {
    sim_thread *th = &S.th[tid];
    int ord = th->loop_ord++;
    if (ord >= MAXLOOPS) die("too many worksharing loops in one region");
    sim_loop *L = &S.loops[ord];
    th->denied = 0;
    if (!L->init) {
        memset(L, 0, sizeof *L);
        L->init = 1;
        L->lb = lb; L->ub = ub; L->st = st ? st : 1;
        if (L->st > 0) L->N = ub >= lb ? (ub - lb) / L->st + 1 : 0;
        else L->N = lb >= ub ? (lb - ub) / (-L->st) + 1 : 0;
        L->kind = S.loop_kind; L->chunk = S.loop_chunk;
        long N = L->N; int T = S.T;
        if (!S.replay) {
            if (L->kind == SIMOMP_LOOP_STATIC_BLOCK) {
                long base = N / T, extra = N % T, pos = 0;
                for (int t = 0; t < T; t++) { long n = base + (t < extra ? 1 : 0); if (n > 0) cv_push(&L->pre[t], pos, pos + n - 1); pos += n; }
            } else if (L->kind == SIMOMP_LOOP_STATIC_CYCLIC) {
                long c = L->chunk, k = 0;
                for (long pos = 0; pos < N; pos += c, k++) { long e = pos + c - 1; if (e >= N) e = N - 1; cv_push(&L->pre[k % T], pos, e); }
            } else if (L->kind == SIMOMP_LOOP_ADV_PRE) {
                long pos = 0;
                while (pos < N) {
                    long rem = N - pos;
                    long n = 1 + (long)rnd(&S.rng_chunks, (uint64_t)(rnd(&S.rng_chunks, 2) ? rem : (rem < 3 ? rem : 3)));
                    cv_push(&L->pre[rnd(&S.rng_chunks, (uint64_t)T)], pos, pos + n - 1);
                    pos += n;
                }
                for (int t = 0; t < T; t++) {
                    if (L->pre[t].n > 1 && rnd(&S.rng_chunks, 2)) {
                        for (long i = L->pre[t].n - 1; i > 0; i--) { long j = (long)rnd(&S.rng_chunks, (uint64_t)(i + 1)); chunk_t x = L->pre[t].v[i]; L->pre[t].v[i] = L->pre[t].v[j]; L->pre[t].v[j] = x; }
                    }
                }
            }
        }
    }
    return L;
}

static void mark_covered(sim_loop *L, long a, long b) {
    if (!L->covered) { L->covered = (unsigned char *)__real_calloc((size_t)(L->N > 0 ? L->N : 1), 1); if (!L->covered) die("oom"); }
    for (long k = a; k <= b && k < L->N; k++) { if (k < 0) continue; if (L->covered[k]) L->overlap = 1; else { L->covered[k] = 1; L->ncovered++; } }
}

/* Hand the next chunk to thread `tid` for loop L in iteration-index space [a,b]; returns 0 when the thread is done. */
static int next_chunk(int tid, sim_loop *L, long *a, long *b) {
    sim_thread *th = &S.th[tid];
    if (S.replay) {
        if (th->served < th->plan.n) {
            *a = th->plan.v[th->served].lb; *b = th->plan.v[th->served].ub; th->served++;
            if (*a < 0) return 0;
            if (*b >= L->N || *b < *a) { L->overlap = 1; return 0; }
            mark_covered(L, *a, *b); th->nchunks++; S.st.chunks++;
            fnv(&S.sched_digest, ((uint64_t)tid << 48) ^ ((uint64_t)*a << 24) ^ (uint64_t)*b);
            return 1;
        }
        return 0;
    }
    int got = 0;
    if (L->kind == SIMOMP_LOOP_STATIC_BLOCK || L->kind == SIMOMP_LOOP_STATIC_CYCLIC || L->kind == SIMOMP_LOOP_ADV_PRE) {
        if (L->prepos[tid] < L->pre[tid].n) { *a = L->pre[tid].v[L->prepos[tid]].lb; *b = L->pre[tid].v[L->prepos[tid]].ub; L->prepos[tid]++; got = 1; }
    } else if (!th->denied && L->next < L->N) {
        long rem = L->N - L->next, n = 1;
        if (L->kind == SIMOMP_LOOP_DYNAMIC) n = L->chunk;
        else if (L->kind == SIMOMP_LOOP_GUIDED) { n = (rem + S.T - 1) / S.T; if (n < L->chunk) n = L->chunk; }
        else { /* adversarial on demand */
            int eligible = 0;
            for (int t = 0; t < S.T; t++) if (t != tid && S.th[t].state != TS_DONE && !S.th[t].denied && S.th[t].loop_ord <= th->loop_ord) eligible++;
            if (eligible && rnd(&S.rng_chunks, 8) == 0) { th->denied = 1; S.st.denied++; n = 0; }
            else n = 1 + (long)rnd(&S.rng_chunks, (uint64_t)(rnd(&S.rng_chunks, 2) ? rem : (rem < 3 ? rem : 3)));
        }
        if (n > rem) n = rem;
        if (n > 0) { *a = L->next; *b = L->next + n - 1; L->next += n; got = 1; }
    }
    if (got) { mark_covered(L, *a, *b); cv_push(&th->plan, *a, *b); th->nchunks++; S.st.chunks++; fnv(&S.sched_digest, ((uint64_t)tid << 48) ^ ((uint64_t)*a << 24) ^ (uint64_t)*b); }
    else { cv_push(&th->plan, -1, -1); }
    return got;
}

#define DISPATCH_IMPL(SUF, TY)                                                                                   \
    void __kmpc_dispatch_init_##SUF(ident_t *loc, kmp_int32 gtid, kmp_int32 sched, TY lb, TY ub, TY st, TY chunk) { \
        (void)loc; (void)sched; (void)chunk;                                                                     \
        int save = S.in_rt; S.in_rt = 1;                                                                          \
        if (!S.active || S.th[gtid].nested) { /* serial / nested-inline execution: single chunk = whole loop */ \
            sim_thread *th0 = &S.th[S.active ? gtid : 0];                                                         \
            th0->solo_init = 1; th0->solo_lb = (long)lb; th0->solo_ub = (long)ub; th0->solo_st = (long)st;         \
            S.in_rt = save; return; }                                                                             \
        (void)enter_loop(gtid, (long)lb, (long)ub, (long)st);                                                     \
        S.in_rt = save;                                                                                           \
        sim_event(5, NULL);                                                                                       \
    }                                                                                                             \
    int __kmpc_dispatch_next_##SUF(ident_t *loc, kmp_int32 gtid, kmp_int32 *plast, TY *plb, TY *pub, TY *pst) {   \
        (void)loc;                                                                                                \
        if (!S.active || S.th[gtid].nested) {                                                                     \
            sim_thread *th0 = &S.th[S.active ? gtid : 0];                                                         \
            if (!th0->solo_init) return 0;                                                                        \
            th0->solo_init = 0; *plb = (TY)th0->solo_lb; *pub = (TY)th0->solo_ub; if (pst) *pst = (TY)th0->solo_st; if (plast) *plast = 1; return 1; } \
        sim_event(5, NULL);                                                                                       \
        int save = S.in_rt; S.in_rt = 1;                                                                          \
        sim_loop *L = &S.loops[S.th[gtid].loop_ord - 1];                                                          \
        long a, b;                                                                                                \
        int got = next_chunk(gtid, L, &a, &b);                                                                    \
        if (got) { *plb = (TY)(L->lb + a * L->st); *pub = (TY)(L->lb + b * L->st); if (pst) *pst = (TY)L->st; if (plast) *plast = (b == L->N - 1); } \
        S.in_rt = save;                                                                                           \
        sim_event(5, NULL);                                                                                       \
        return got;                                                                                               \
    }                                                                                                             \
    void __kmpc_dispatch_fini_##SUF(ident_t *loc, kmp_int32 gtid) { (void)loc; (void)gtid; }

DISPATCH_IMPL(4, kmp_int32)
DISPATCH_IMPL(4u, kmp_uint32)
DISPATCH_IMPL(8, kmp_int64)
DISPATCH_IMPL(8u, kmp_uint64)

#define STATIC_IMPL(SUF, TY, STY)                                                                                 \
    void __kmpc_for_static_init_##SUF(ident_t *loc, kmp_int32 gtid, kmp_int32 schedtype, kmp_int32 *plast,        \
                                      TY *plower, TY *pupper, STY *pstride, STY incr, STY chunk) {                 \
        (void)loc;                                                                                                \
        if (!S.active || S.th[gtid].nested) { if (plast) *plast = 1; if (pstride) *pstride = (STY)(*pupper - *plower + 1); return; } \
        int save = S.in_rt; S.in_rt = 1;                                                                          \
        long lb = (long)*plower, ub = (long)*pupper, st = (long)incr;                                             \
        sim_loop *L = enter_loop(gtid, lb, ub, st);                                                               \
        long N = L->N; int T = S.T;                                                                               \
        if ((schedtype & 0xff) == 33) { /* static, chunked: cyclic, semantics fixed by the compiled loop */        \
            long c = (long)chunk < 1 ? 1 : (long)chunk;                                                           \
            *pstride = (STY)(T * c * st);                                                                         \
            *plower = (TY)(lb + (long)gtid * c * st);                                                             \
            *pupper = (TY)(lb + ((long)gtid * c + c - 1) * st);                                                   \
            if (plast) *plast = (N > 0 && ((N - 1) / c) % T == gtid);                                             \
            for (long q = (long)gtid * c; q < N; q += (long)T * c) { mark_covered(L, q, q + c - 1 < N ? q + c - 1 : N - 1); S.th[gtid].nchunks++; S.st.chunks++; } \
        } else { /* static: one contiguous block per thread; the partition is the simulator's choice */            \
            long a = 0, b = -1;                                                                                   \
            if (S.replay) { (void)next_chunk(gtid, L, &a, &b); if (a < 0) { a = 0; b = -1; } }                    \
            else {                                                                                                \
                if (!L->static_planned) { L->static_planned = 1;                                                        \
                    long cuts[MAXT + 1]; cuts[0] = 0; cuts[T] = N;                                                \
                    int adv = (L->kind == SIMOMP_LOOP_ADV_PRE || L->kind == SIMOMP_LOOP_ADV_DEMAND);              \
                    for (int t = 1; t < T; t++) cuts[t] = adv ? (long)rnd(&S.rng_chunks, (uint64_t)(N + 1)) : (N / T) * t + (t < N % T ? t : N % T); \
                    for (int i = 1; i < T; i++) for (int j = i + 1; j < T; j++) if (cuts[j] < cuts[i]) { long x = cuts[i]; cuts[i] = cuts[j]; cuts[j] = x; } \
                    for (int t = 0; t < T; t++) { L->stat_a[t] = cuts[t]; L->stat_b[t] = cuts[t + 1] - 1; }                    \
                }                                                                                                 \
                a = L->stat_a[gtid]; b = L->stat_b[gtid];                                               \
                if (b >= a) { mark_covered(L, a, b); cv_push(&S.th[gtid].plan, a, b); S.th[gtid].nchunks++; S.st.chunks++; fnv(&S.sched_digest, ((uint64_t)gtid << 48) ^ ((uint64_t)a << 24) ^ (uint64_t)b); } \
                else cv_push(&S.th[gtid].plan, -1, -1);                                                           \
            }                                                                                                     \
            if (b >= a) { *plower = (TY)(lb + a * st); *pupper = (TY)(lb + b * st); if (plast) *plast = (b == N - 1); } \
            else { *plower = (TY)(ub + st); *pupper = (TY)ub; if (plast) *plast = 0; }                            \
            if (pstride) *pstride = (STY)(N * st);                                                                \
        }                                                                                                         \
        S.in_rt = save;                                                                                           \
        sim_event(5, NULL);                                                                                       \
    }

STATIC_IMPL(4, kmp_int32, kmp_int32)
STATIC_IMPL(4u, kmp_uint32, kmp_int32)
STATIC_IMPL(8, kmp_int64, kmp_int64)
STATIC_IMPL(8u, kmp_uint64, kmp_int64)

void __kmpc_for_static_fini(ident_t *loc, kmp_int32 gtid) { (void)loc; (void)gtid; }

/* ---- synchronisation ---------------------------------------------------------------------- */

void __kmpc_barrier(ident_t *loc, kmp_int32 gtid) {
    (void)loc;
    if (!S.active) return;
    sim_event(6, NULL);
    S.in_rt = 1;
    S.th[gtid].state = TS_BARRIER;
    block_current();
    S.in_rt = 0;
    sim_event(6, NULL);
}

static simlock *lock_get(void *addr) {
    for (int i = 0; i < S.nlocks; i++) if (S.locks[i].addr == addr) return &S.locks[i];
    if (S.nlocks == MAXLOCKS) die("too many locks");
    simlock *l = &S.locks[S.nlocks++];
    l->addr = addr; l->owner = -1; l->depth = 0;
    return l;
}

static void lock_acquire(void *addr, int nest) {
    if (!S.active) return;
    sim_event(7, NULL);
    S.in_rt = 1;
    simlock *l = lock_get(addr);
    for (;;) {
        if (l->owner < 0) { l->owner = S.cur; l->depth = 1; break; }
        if (l->owner == S.cur && nest) { l->depth++; break; }
        S.th[S.cur].state = TS_LOCK; S.th[S.cur].waitlock = addr;
        S.st.lock_waits++;
        block_current();
        if (S.status) break;
    }
    S.in_rt = 0;
}

static void lock_release(void *addr) {
    if (!S.active) return;
    S.in_rt = 1;
    simlock *l = lock_get(addr);
    if (l->owner == S.cur && --l->depth <= 0) {
        l->owner = -1;
        for (int t = 0; t < S.T; t++) if (S.th[t].state == TS_LOCK && S.th[t].waitlock == addr) S.th[t].state = TS_RUNNABLE;
    }
    S.in_rt = 0;
    sim_event(7, NULL);
}

static int lock_try(void *addr, int nest) {
    if (!S.active) return 1;
    sim_event(7, NULL);
    simlock *l = lock_get(addr);
    if (l->owner < 0) { l->owner = S.cur; l->depth = 1; return 1; }
    if (l->owner == S.cur && nest) { l->depth++; return l->depth; }
    return 0;
}

void __kmpc_critical(ident_t *loc, kmp_int32 gtid, void *crit) { (void)loc; (void)gtid; lock_acquire(crit, 0); }
void __kmpc_critical_with_hint(ident_t *loc, kmp_int32 gtid, void *crit, uint32_t hint) { (void)loc; (void)gtid; (void)hint; lock_acquire(crit, 0); }
void __kmpc_end_critical(ident_t *loc, kmp_int32 gtid, void *crit) { (void)loc; (void)gtid; lock_release(crit); }

static char reduce_lock;
kmp_int32 __kmpc_reduce_nowait(ident_t *loc, kmp_int32 gtid, kmp_int32 nvars, size_t sz, void *data, void (*f)(void *, void *), void *lck) {
    (void)loc; (void)gtid; (void)nvars; (void)sz; (void)data; (void)f; (void)lck;
    lock_acquire(&reduce_lock, 0);
    return 1;
}
void __kmpc_end_reduce_nowait(ident_t *loc, kmp_int32 gtid, void *lck) { (void)loc; (void)gtid; (void)lck; lock_release(&reduce_lock); }
kmp_int32 __kmpc_reduce(ident_t *loc, kmp_int32 gtid, kmp_int32 nvars, size_t sz, void *data, void (*f)(void *, void *), void *lck) {
    (void)loc; (void)gtid; (void)nvars; (void)sz; (void)data; (void)f; (void)lck;
    lock_acquire(&reduce_lock, 0);
    return 1;
}
void __kmpc_end_reduce(ident_t *loc, kmp_int32 gtid, void *lck) { (void)lck; lock_release(&reduce_lock); __kmpc_barrier(loc, gtid); }

kmp_int32 __kmpc_single(ident_t *loc, kmp_int32 gtid) {
    (void)loc;
    if (!S.active) return 1;
    static int claimed[MAXLOOPS]; static int claimed_region = -1;
    if (claimed_region != S.region_count) { memset(claimed, 0, sizeof claimed); claimed_region = S.region_count; }
    sim_event(8, NULL);
    int ord = S.th[gtid].single_ord++;
    if (ord >= MAXLOOPS) die("too many single constructs");
    if (!claimed[ord]) { claimed[ord] = 1; return 1; }
    return 0;
}
void __kmpc_end_single(ident_t *loc, kmp_int32 gtid) { (void)loc; (void)gtid; }
kmp_int32 __kmpc_master(ident_t *loc, kmp_int32 gtid) { (void)loc; return !S.active || gtid == 0; }
void __kmpc_end_master(ident_t *loc, kmp_int32 gtid) { (void)loc; (void)gtid; }

/* threadprivate */
void *__kmpc_threadprivate_cached(ident_t *loc, kmp_int32 gtid, void *data, size_t size, void ***cache) {
    (void)loc; (void)cache;
    static struct { void *data; int tid; void *copy; } tab[256]; static int ntab;
    int tid = S.active ? gtid : 0;
    if (tid == 0) return data;
    for (int i = 0; i < ntab; i++) if (tab[i].data == data && tab[i].tid == tid) return tab[i].copy;
    if (ntab == 256) die("threadprivate table full");
    void *c = __real_malloc(size); memcpy(c, data, size);
    tab[ntab].data = data; tab[ntab].tid = tid; tab[ntab].copy = c; ntab++;
    return c;
}

/* ---- user-level API ----------------------------------------------------------------------- */

int omp_get_thread_num(void) { return S.active ? S.cur : 0; }
int omp_get_num_threads(void) { return S.active ? S.T : 1; }
int omp_get_max_threads(void) { sim_init(); return S.max_threads; }
void omp_set_num_threads(int n) { sim_init(); if (n >= 1) { S.max_threads = n; S.st.set_num_threads_calls++; } }
/* The number of processors is a fact about the machine, not about the team: a pure function of the run's seed, in one run in
   two SMALLER than the team (oversubscription: more threads than processors), otherwise equal to or larger than it. */
int omp_get_num_procs(void) {
    sim_init();
    uint64_t h = S.seed ^ 0x6f6d705f70726f63ULL, r = splitmix(&h);
    int T = S.cfg_T < 1 ? 1 : S.cfg_T;
    switch (r & 3) {
        case 0: return T;
        case 1: return T > 1 ? 1 + (int)((r >> 8) % (uint64_t)(T - 1)) : 1;      /* 1 .. T-1 */
        case 2: return T > 1 ? (T + 1) / 2 : 1;
        default: return T + 1 + (int)((r >> 8) % 8);
    }
}
int omp_in_parallel(void) { return S.active; }
int omp_get_dynamic(void) { return 0; }
void omp_set_dynamic(int x) { (void)x; }
int omp_get_nested(void) { return 0; }
void omp_set_nested(int x) { (void)x; }
int omp_get_thread_limit(void) { return MAXT; }
int omp_get_level(void) { return S.active ? 1 : 0; }
double omp_get_wtime(void) { return (double)S.event * 1e-6; }
double omp_get_wtick(void) { return 1e-6; }
void omp_set_schedule(int k, int c) { (void)k; (void)c; }
void omp_get_schedule(int *k, int *c) { if (k) *k = 2; if (c) *c = 1; }
void omp_init_lock(void *l) { (void)l; }
void omp_destroy_lock(void *l) { (void)l; }
void omp_set_lock(void *l) { lock_acquire(l, 0); }
void omp_unset_lock(void *l) { lock_release(l); }
int omp_test_lock(void *l) { return lock_try(l, 0); }
void omp_init_nest_lock(void *l) { (void)l; }
void omp_destroy_nest_lock(void *l) { (void)l; }
void omp_set_nest_lock(void *l) { lock_acquire(l, 1); }
void omp_unset_nest_lock(void *l) { lock_release(l); }
int omp_test_nest_lock(void *l) { return lock_try(l, 1); }
