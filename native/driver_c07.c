/*
 * driver_c07 — layer A of the C07 check (DESIGN.md §4, C07).
 *
 * Drives the six exported dtw_distances_*_parallel routines of the repository (real code, compiled
 * from /repo's working tree with clang -fopenmp and load/store/edge callbacks) under the simulated
 * OpenMP runtime simomp, and compares every run with the serial twin routine.
 *
 *   driver_c07 gen    <seed> <from> <count> <outdir> <tag>   sweep of generated cases and schedules
 *   driver_c07 sched  <casefile> <seed> <count> <outdir> <tag> literal case, <count> random schedules
 *   driver_c07 replay <casefile> <outdir> <tag>              literal case, explicit decision trace
 *
 * Results go to <outdir>/<tag>.summary (one JSON object), <outdir>/<tag>.hashes (binary u64 schedule
 * hashes of non-trivial runs), <outdir>/<tag>.digests (text, one line per run) and, on a violation,
 * <outdir>/<tag>.case (text case + decision trace).  Exit status: 0 clean, 1 violation, 2 harness error.
 * The repository's own stdout chatter is left alone; nothing is parsed from stdout.
 */
#define _GNU_SOURCE
#include <math.h>
#include <setjmp.h>
#include <signal.h>
#include <stdint.h>
#include <stdio.h>
#include <stdlib.h>
#include <string.h>
#include <unistd.h>

#include "dd_dtw.h"
#include "dd_dtw_openmp.h"
#include "simomp.h"

#define MAXS 48
#define MAXLEN 40
#define MAXOUT 2048
#define NANPAT 0x7ff8dead0000beefull
#define CANARY 0x7ff8c0dec0dec0deull

typedef struct {
    int fn, ndim;
    long nr, nc;          /* number of row / column series (nc==nr except for the *_matrices forms) */
    long ns;              /* stored series */
    long len[MAXS];
    double val[MAXS][MAXLEN * 3];
    DTWBlock block;
    DTWSettings set;
    int T, loop_kind; long loop_chunk; int pre_kind; long pre_param;
    uint64_t sched_seed;
    /* explicit trace */
    int has_trace;
} case_t;

static const char *fn_names[6] = {"dtw_distances_ptrs_parallel", "dtw_distances_ndim_ptrs_parallel", "dtw_distances_matrix_parallel",
                                  "dtw_distances_ndim_matrix_parallel", "dtw_distances_matrices_parallel", "dtw_distances_ndim_matrices_parallel"};

static inline uint64_t splitmix(uint64_t *s) {
    uint64_t z = (*s += 0x9E3779B97F4A7C15ull);
    z = (z ^ (z >> 30)) * 0xBF58476D1CE4E5B9ull;
    z = (z ^ (z >> 27)) * 0x94D049BB133111EBull;
    return z ^ (z >> 31);
}
static inline uint64_t rnd(uint64_t *s, uint64_t n) { return n ? splitmix(s) % n : 0; }
static inline double rnd01(uint64_t *s) { return (double)(splitmix(s) >> 11) / 9007199254740992.0; }
static inline void fnv(uint64_t *h, uint64_t v) { *h = (*h ^ v) * 0x100000001b3ull; }

static void harness_die(const char *m) { fprintf(stderr, "HARNESS-ERROR driver_c07: %s\n", m); _exit(2); }

/* ---- crash containment ---------------------------------------------------------------------- */
static sigjmp_buf crash_jmp;
static volatile sig_atomic_t crash_armed, crash_sig;
static char altstack[1 << 16];
static void on_crash(int sig) {
    if (crash_armed) { crash_sig = sig; crash_armed = 0; siglongjmp(crash_jmp, 1); }
    signal(sig, SIG_DFL); raise(sig);
}
static void install_handlers(void) {
    stack_t ss; ss.ss_sp = altstack; ss.ss_size = sizeof altstack; ss.ss_flags = 0; sigaltstack(&ss, NULL);
    struct sigaction sa; memset(&sa, 0, sizeof sa); sa.sa_handler = on_crash; sa.sa_flags = SA_ONSTACK | SA_NODEFER; sigemptyset(&sa.sa_mask);
    sigaction(SIGSEGV, &sa, NULL); sigaction(SIGBUS, &sa, NULL); sigaction(SIGFPE, &sa, NULL); sigaction(SIGABRT, &sa, NULL); sigaction(SIGILL, &sa, NULL);
}

/* ---- case generation ------------------------------------------------------------------------ */
static void gen_case(case_t *c, uint64_t seed) {
    uint64_t w = seed ^ 0x776f726b6c6f6164ull;
    memset(c, 0, sizeof *c);
    c->fn = (int)rnd(&w, 6);
    int is_ndim = c->fn & 1;
    c->ndim = is_ndim ? 1 + (int)rnd(&w, 3) : 1;
    int form = c->fn / 2;            /* 0 ptrs, 1 matrix, 2 matrices */
    /* swarm sizing: most cases are tiny (index-plan and privatisation bugs need few rows), one in 32 is an order of
       magnitude larger (more rows than any small thread count, long series, many chunks per thread) */
    int big = rnd(&w, 32) == 0;
    long maxn = big ? 12 : 9, minn = big ? 10 : 1, maxl = big ? 20 : 10, minl = big ? 8 : 1;
    c->nr = minn + (long)rnd(&w, (uint64_t)maxn);
    c->nc = c->nr;
    if (form == 2) c->nc = minn + (long)rnd(&w, (uint64_t)maxn);
    c->ns = form == 2 ? c->nr + c->nc : c->nr;
    long lr = minl + (long)rnd(&w, (uint64_t)(maxl - minl + 1)), lc = form == 2 ? minl + (long)rnd(&w, (uint64_t)(maxl - minl + 1)) : lr;
    int grid = (int)rnd(&w, 3);      /* 0: small ints (many ties), 1: halves, 2: doubles */
    long minlen = 1000;
    for (long i = 0; i < c->ns; i++) {
        long L = form == 0 ? minl + (long)rnd(&w, (uint64_t)(maxl - minl + 1)) : (i < c->nr ? lr : lc);
        c->len[i] = L;
        if (L < minlen) minlen = L;
        for (long k = 0; k < L * c->ndim; k++) {
            double v;
            if (grid == 0) v = (double)((long)rnd(&w, 5) - 2);
            else if (grid == 1) v = ((double)((long)rnd(&w, 21) - 10)) * 0.5;
            else v = (rnd01(&w) - 0.5) * 8.0;
            c->val[i][k] = v;
        }
        if (i > 0 && rnd(&w, 6) == 0 && c->len[i - 1] == L) memcpy(c->val[i], c->val[i - 1], sizeof(double) * L * c->ndim); /* duplicates */
    }
    /* block */
    DTWBlock b = dtw_block_empty();
    int bk = (int)rnd(&w, 8);
    if (bk <= 1) { /* none */
        if (bk == 1 && form != 2) b.triu = rnd(&w, 2);
        if (form == 2) b.triu = rnd(&w, 4) == 0;
    } else {
        long rb = (long)rnd(&w, (uint64_t)c->nr), re = rb + 1 + (long)rnd(&w, (uint64_t)(c->nr - rb));
        long cb = (long)rnd(&w, (uint64_t)c->nc), ce = cb + 1 + (long)rnd(&w, (uint64_t)(c->nc - cb));
        b.rb = rb; b.re = re; b.cb = cb; b.ce = ce;
        b.triu = bk < 6 ? 1 : 0;
        if (form == 2 && rnd(&w, 2)) b.triu = 0;
    }
    c->block = b;
    /* settings */
    DTWSettings s = dtw_settings_default();
    long maxlen = 0; for (long i = 0; i < c->ns; i++) if (c->len[i] > maxlen) maxlen = c->len[i];
    if (rnd(&w, 2)) s.window = 1 + (idx_t)rnd(&w, (uint64_t)(maxlen + 1));
    if (rnd(&w, 4) == 0) s.max_dist = 0.5 + rnd01(&w) * 6.0;
    if (rnd(&w, 5) == 0) s.max_step = 0.5 + rnd01(&w) * 4.0;
    if (rnd(&w, 5) == 0) s.max_length_diff = 1 + (idx_t)rnd(&w, 5);
    if (rnd(&w, 3) == 0) s.penalty = rnd(&w, 2) ? 0.5 : rnd01(&w) * 3.0;
    if (rnd(&w, 3) == 0) {
        /* psi up to the shortest series; one psi setting in four goes up to the LONGEST series + 1 (wider than some or all
           series: the kernels clamp, the serial and the parallel result must still be the same) */
        long plim = rnd(&w, 4) ? minlen + 1 : maxlen + 2;
        if (rnd(&w, 2)) { idx_t p = (idx_t)rnd(&w, (uint64_t)plim); s.psi_1b = s.psi_1e = s.psi_2b = s.psi_2e = p; }
        else { s.psi_1b = (idx_t)rnd(&w, (uint64_t)plim); s.psi_1e = (idx_t)rnd(&w, (uint64_t)plim);
               s.psi_2b = (idx_t)rnd(&w, (uint64_t)plim); s.psi_2e = (idx_t)rnd(&w, (uint64_t)plim); }
    }
    /* psi is drawn up to the shortest series length whatever the window: a band narrower than psi is admissible input
       (it used to make the kernels read before / write past their rolling buffer: repaired in the repository). */
    if (rnd(&w, 4) == 0) s.use_pruning = true;
    if (rnd(&w, 16) == 0) s.only_ub = true;
    if (rnd(&w, 3) == 0) s.inner_dist = 1;
    c->set = s;
    /* schedule space */
    uint64_t q = seed ^ 0x7363686564756c65ull;
    long rows = (b.re ? b.re : c->nr) - b.rb;
    switch (rnd(&q, 8)) {
    case 0: c->T = 1; break;
    case 1: c->T = 2; break;
    case 2: c->T = (int)(rows > 1 ? rows - 1 : 1); break;
    case 3: c->T = (int)rows; break;
    case 4: c->T = (int)rows + 1; break;
    case 5: c->T = 64; break;
    case 6: c->T = 2 + (int)rnd(&q, 4); break;
    default: c->T = 1 + (int)rnd(&q, 64); break;
    }
    if (c->T < 1) c->T = 1;
    c->loop_kind = (int)rnd(&q, SIMOMP_LOOP_NKINDS);
    c->loop_chunk = 1 + (long)rnd(&q, 3);
    switch (rnd(&q, 16)) {
    case 0: c->pre_kind = SIMOMP_PRE_NONE; c->pre_param = 0; break;
    case 1: case 2: case 3: c->pre_kind = SIMOMP_PRE_PCT; c->pre_param = (long)rnd(&q, 6); break;
    case 4: case 5: c->pre_kind = SIMOMP_PRE_STALL; c->pre_param = 64; break;
    case 6: case 7: c->pre_kind = SIMOMP_PRE_RACE; c->pre_param = 256; break;
    default: { static const long ps[4] = {4, 16, 64, 256}; c->pre_kind = SIMOMP_PRE_BERNOULLI; c->pre_param = ps[rnd(&q, 4)]; }
    }
    c->sched_seed = splitmix(&q);
}

/* ---- case file ------------------------------------------------------------------------------ */
static void write_case(FILE *f, const case_t *c, const char *vclass, uint64_t subseed, int with_trace) {
    fprintf(f, "c07case 1\nfn %d\nfnname %s\nndim %d\nnr %ld\nnc %ld\nns %ld\n", c->fn, fn_names[c->fn], c->ndim, c->nr, c->nc, c->ns);
    for (long i = 0; i < c->ns; i++) {
        fprintf(f, "series %ld %ld", i, c->len[i]);
        for (long k = 0; k < c->len[i] * c->ndim; k++) fprintf(f, " %a", c->val[i][k]);
        fprintf(f, "\n");
    }
    fprintf(f, "block %zd %zd %zd %zd %d\n", c->block.rb, c->block.re, c->block.cb, c->block.ce, (int)c->block.triu);
    fprintf(f, "settings %zd %a %a %zd %a %zd %zd %zd %zd %d %d %d %d\n", c->set.window, c->set.max_dist, c->set.max_step, c->set.max_length_diff,
            c->set.penalty, c->set.psi_1b, c->set.psi_1e, c->set.psi_2b, c->set.psi_2e, (int)c->set.use_pruning, (int)c->set.only_ub, c->set.inner_dist, c->set.window_type);
    fprintf(f, "threads %d\nloop %d %ld\npreempt %d %ld\nschedseed %llu\nsubseed %llu\n", c->T, c->loop_kind, c->loop_chunk, c->pre_kind, c->pre_param,
            (unsigned long long)c->sched_seed, (unsigned long long)subseed);
    if (vclass) fprintf(f, "violation %s\n", vclass);
    if (with_trace) {
        int T = simomp_threads_used();
        fprintf(f, "threads_used %d\n", T);
        for (int t = 0; t < T; t++) {
            long n = simomp_trace_nplan(t);
            fprintf(f, "plan %d %ld", t, n);
            for (long j = 0; j < n; j++) { long a, b; simomp_trace_plan(t, j, &a, &b); fprintf(f, " %ld %ld", a, b); }
            fprintf(f, "\n");
        }
        long ns = simomp_trace_nswitch();
        fprintf(f, "switches %ld", ns);
        for (long i = 0; i < ns; i++) { uint64_t ev; int to; simomp_trace_switch(i, &ev, &to); fprintf(f, " %llu %d", (unsigned long long)ev, to); }
        fprintf(f, "\n");
    }
    fprintf(f, "end\n");
}

typedef struct { int T; long nplan[64]; long *plan[64]; long nsw; unsigned long long *sw; } trace_t;

static int read_case(const char *path, case_t *c, trace_t *tr) {
    FILE *f = fopen(path, "r");
    if (!f) return -1;
    char key[64];
    memset(c, 0, sizeof *c); memset(tr, 0, sizeof *tr);
    c->T = 2; c->loop_kind = SIMOMP_LOOP_DYNAMIC; c->loop_chunk = 1; c->pre_kind = SIMOMP_PRE_BERNOULLI; c->pre_param = 16;
    while (fscanf(f, "%63s", key) == 1) {
        if (!strcmp(key, "end")) break;
        else if (!strcmp(key, "c07case")) { int v; if (fscanf(f, "%d", &v) != 1) goto bad; }
        else if (!strcmp(key, "fn")) { if (fscanf(f, "%d", &c->fn) != 1) goto bad; }
        else if (!strcmp(key, "fnname") || !strcmp(key, "violation")) { char tmp[128]; if (fscanf(f, "%127s", tmp) != 1) goto bad; }
        else if (!strcmp(key, "ndim")) { if (fscanf(f, "%d", &c->ndim) != 1) goto bad; }
        else if (!strcmp(key, "nr")) { if (fscanf(f, "%ld", &c->nr) != 1) goto bad; }
        else if (!strcmp(key, "nc")) { if (fscanf(f, "%ld", &c->nc) != 1) goto bad; }
        else if (!strcmp(key, "ns")) { if (fscanf(f, "%ld", &c->ns) != 1) goto bad; }
        else if (!strcmp(key, "series")) {
            long i, L; if (fscanf(f, "%ld %ld", &i, &L) != 2 || i < 0 || i >= MAXS || L < 0 || L > MAXLEN) goto bad;
            c->len[i] = L;
            for (long k = 0; k < L * c->ndim; k++) { char tok[64]; if (fscanf(f, "%63s", tok) != 1) goto bad; c->val[i][k] = strtod(tok, NULL); }
        }
        else if (!strcmp(key, "block")) { long a, b, d, e; int t; if (fscanf(f, "%ld %ld %ld %ld %d", &a, &b, &d, &e, &t) != 5) goto bad; c->block.rb = a; c->block.re = b; c->block.cb = d; c->block.ce = e; c->block.triu = t; }
        else if (!strcmp(key, "settings")) {
            long win, mld, p1, p2, p3, p4; int up, ou, id, wt; char t1[64], t2[64], t3[64];
            if (fscanf(f, "%ld %63s %63s %ld %63s %ld %ld %ld %ld %d %d %d %d", &win, t1, t2, &mld, t3, &p1, &p2, &p3, &p4, &up, &ou, &id, &wt) != 13) goto bad;
            c->set = dtw_settings_default();
            c->set.window = win; c->set.max_dist = strtod(t1, NULL); c->set.max_step = strtod(t2, NULL); c->set.max_length_diff = mld; c->set.penalty = strtod(t3, NULL);
            c->set.psi_1b = p1; c->set.psi_1e = p2; c->set.psi_2b = p3; c->set.psi_2e = p4; c->set.use_pruning = up; c->set.only_ub = ou; c->set.inner_dist = id; c->set.window_type = wt;
        }
        else if (!strcmp(key, "threads")) { if (fscanf(f, "%d", &c->T) != 1) goto bad; }
        else if (!strcmp(key, "threads_used")) { if (fscanf(f, "%d", &tr->T) != 1) goto bad; }
        else if (!strcmp(key, "loop")) { if (fscanf(f, "%d %ld", &c->loop_kind, &c->loop_chunk) != 2) goto bad; }
        else if (!strcmp(key, "preempt")) { if (fscanf(f, "%d %ld", &c->pre_kind, &c->pre_param) != 2) goto bad; }
        else if (!strcmp(key, "schedseed")) { unsigned long long v; if (fscanf(f, "%llu", &v) != 1) goto bad; c->sched_seed = v; }
        else if (!strcmp(key, "subseed")) { unsigned long long v; if (fscanf(f, "%llu", &v) != 1) goto bad; }
        else if (!strcmp(key, "plan")) {
            int t; long n; if (fscanf(f, "%d %ld", &t, &n) != 2 || t < 0 || t >= 64 || n < 0) goto bad;
            tr->nplan[t] = n; tr->plan[t] = (long *)malloc(sizeof(long) * 2 * (n + 1));
            for (long j = 0; j < 2 * n; j++) if (fscanf(f, "%ld", &tr->plan[t][j]) != 1) goto bad;
            c->has_trace = 1;
        }
        else if (!strcmp(key, "switches")) {
            long n; if (fscanf(f, "%ld", &n) != 1 || n < 0) goto bad;
            tr->nsw = n; tr->sw = (unsigned long long *)malloc(sizeof(unsigned long long) * 2 * (n + 1));
            for (long j = 0; j < 2 * n; j++) if (fscanf(f, "%llu", &tr->sw[j]) != 1) goto bad;
            c->has_trace = 1;
        }
        else goto bad;
    }
    fclose(f);
    if (c->fn < 0 || c->fn > 5 || c->ndim < 1 || c->ndim > 3 || c->ns < 1 || c->ns > MAXS || c->nr < 1 || c->nc < 1) return -2;
    return 0;
bad:
    fclose(f);
    return -2;
}

/* ---- execution of one case ------------------------------------------------------------------ */

typedef struct {
    double *data;          /* all series values, contiguous (matrix forms index into this) */
    double *ptrs[MAXS];
    idx_t lengths[MAXS];
    size_t ndata;
    uint64_t *out_raw;     /* canary | output... | canary */
    long outcap;
} workspace;

static char *arena_blk; static size_t arena_blk_sz;

static void layout(const case_t *c, workspace *w) {
    /* one contiguous block so that the access digest can name every address by offset */
    size_t nd = 0; for (long i = 0; i < c->ns; i++) nd += (size_t)c->len[i] * c->ndim;
    size_t need = sizeof(double) * (nd + 8) + sizeof(uint64_t) * (MAXOUT + 16);
    if (!arena_blk) { arena_blk_sz = 1 << 20; arena_blk = (char *)malloc(arena_blk_sz); }
    if (need > arena_blk_sz) harness_die("workspace too small");
    w->data = (double *)arena_blk; w->ndata = nd;
    size_t pos = 0;
    for (long i = 0; i < c->ns; i++) { w->ptrs[i] = w->data + pos; w->lengths[i] = c->len[i]; memcpy(w->ptrs[i], c->val[i], sizeof(double) * c->len[i] * c->ndim); pos += (size_t)c->len[i] * c->ndim; }
    w->out_raw = (uint64_t *)(arena_blk + sizeof(double) * (nd + 8));
    w->outcap = MAXOUT;
}

static idx_t call_fn(int fn, int parallel, const case_t *c, workspace *w, double *out, DTWBlock *b, DTWSettings *s) {
    long cols_r = c->len[0], cols_c = c->len[c->ns - 1];
    double *mr = w->ptrs[0], *mc = w->ptrs[c->nr < c->ns ? c->nr : 0];
    switch (fn) {
    case 0: return parallel ? dtw_distances_ptrs_parallel(w->ptrs, c->nr, w->lengths, out, b, s) : dtw_distances_ptrs(w->ptrs, c->nr, w->lengths, out, b, s);
    case 1: return parallel ? dtw_distances_ndim_ptrs_parallel(w->ptrs, c->nr, w->lengths, c->ndim, out, b, s) : dtw_distances_ndim_ptrs(w->ptrs, c->nr, w->lengths, c->ndim, out, b, s);
    case 2: return parallel ? dtw_distances_matrix_parallel(mr, c->nr, cols_r, out, b, s) : dtw_distances_matrix(mr, c->nr, cols_r, out, b, s);
    case 3: return parallel ? dtw_distances_ndim_matrix_parallel(mr, c->nr, cols_r, c->ndim, out, b, s) : dtw_distances_ndim_matrix(mr, c->nr, cols_r, c->ndim, out, b, s);
    case 4: return parallel ? dtw_distances_matrices_parallel(mr, c->nr, cols_r, mc, c->nc, cols_c, out, b, s) : dtw_distances_matrices(mr, c->nr, cols_r, mc, c->nc, cols_c, out, b, s);
    case 5: return parallel ? dtw_distances_ndim_matrices_parallel(mr, c->nr, cols_r, mc, c->nc, cols_c, c->ndim, out, b, s) : dtw_distances_ndim_matrices(mr, c->nr, cols_r, mc, c->nc, cols_c, c->ndim, out, b, s);
    }
    return -1;
}

typedef struct {
    const char *vclass;   /* NULL = pass */
    int serial_crashed, invalid;
    uint64_t events, switches, est; int status; long racy;
    uint64_t acc, sched, outhash; int threads_ran, threads_chunked;
    long len; int info_settings, info_block;
} result_t;

static uint64_t ser_out[MAXOUT]; static long ser_len; static DTWBlock ser_block; static DTWSettings ser_set; static uint64_t ser_events;
static int ser_ok;

/* serial twin; result kept in ser_* */
static int run_serial(const case_t *c, workspace *w) {
    layout(c, w);
    DTWBlock b = c->block; DTWSettings s = c->set;
    long explen = dtw_distances_length(&b, c->nr, c->nc);
    if (explen < 0 || explen > MAXOUT - 2) return -1;
    for (long i = 0; i < MAXOUT; i++) ser_out[i] = NANPAT;
    b = c->block;
    ser_ok = 0;
    simomp_reset(); simomp_set_junk(0);
    crash_armed = 1;
    if (sigsetjmp(crash_jmp, 1) == 0) {
        simomp_count_begin();
        ser_len = call_fn(c->fn, 0, c, w, (double *)ser_out, &b, &s);
        ser_events = simomp_count_end();
        crash_armed = 0;
    } else {
        simomp_count_end();
        return -2;
    }
    ser_block = b; ser_set = s;
    if (ser_len != explen) return -3;
    ser_ok = 1;
    return 0;
}

static void run_parallel(const case_t *c, workspace *w, const trace_t *tr, int replay, int shadow, result_t *r) {
    memset(r, 0, sizeof *r);
    layout(c, w);
    long explen = ser_len;
    uint64_t *out = w->out_raw + 1;
    w->out_raw[0] = CANARY;
    for (long i = 0; i < explen; i++) out[i] = NANPAT;
    out[explen] = CANARY; out[explen + 1] = CANARY;
    DTWBlock b = c->block; DTWSettings s = c->set;
    simomp_reset(); simomp_set_junk(1);
    simomp_set_seed(c->sched_seed);
    simomp_set_threads(c->T);
    simomp_set_loop_policy(c->loop_kind, c->loop_chunk);
    simomp_set_preempt_policy(c->pre_kind, c->pre_param);
    simomp_set_estimate(ser_events);
    simomp_set_budget(ser_events * 1000 + 200000);
    simomp_set_shadow(shadow);
    simomp_register_region(arena_blk, arena_blk_sz);
    if (replay) {
        simomp_replay_begin(tr->T ? tr->T : c->T);
        for (int t = 0; t < 64; t++) for (long j = 0; j < tr->nplan[t]; j++) simomp_replay_plan(t, tr->plan[t][2 * j], tr->plan[t][2 * j + 1]);
        for (long j = 0; j < tr->nsw; j++) simomp_replay_switch(tr->sw[2 * j], (int)tr->sw[2 * j + 1]);
    }
    idx_t plen = -1;
    crash_armed = 1;
    if (sigsetjmp(crash_jmp, 1) == 0) {
        plen = call_fn(c->fn, 1, c, w, (double *)out, &b, &s);
        crash_armed = 0;
    } else {
        r->vclass = "crash";
    }
    const simomp_stats_t *st = simomp_stats();
    r->events = simomp_events(); r->switches = st->switches; r->status = simomp_status(); r->racy = simomp_shadow_racy();
    r->acc = simomp_access_digest(); r->sched = simomp_sched_digest();
    r->len = plen;
    if (r->vclass) return;
    if (r->status == SIMOMP_ST_BADPLAN) { r->invalid = 1; return; }
    if (r->status == SIMOMP_ST_DEADLOCK) { r->vclass = "deadlock"; return; }
    if (r->status == SIMOMP_ST_BUDGET) { r->vclass = "nontermination"; return; }
    if (plen != ser_len) { r->vclass = "length"; return; }
    uint64_t oh = 0xcbf29ce484222325ull;
    for (long i = 0; i < explen; i++) { fnv(&oh, out[i]); if (out[i] != ser_out[i]) r->vclass = "output"; }
    r->outhash = oh;
    if (r->vclass) return;
    if (w->out_raw[0] != CANARY || out[explen] != CANARY || out[explen + 1] != CANARY) { r->vclass = "canary"; return; }
    for (long i = 0; i < c->ns; i++) {
        if (w->lengths[i] != c->len[i]) { r->vclass = "input-modified"; return; }
        if (memcmp(w->ptrs[i], c->val[i], sizeof(double) * c->len[i] * c->ndim)) { r->vclass = "input-modified"; return; }
    }
    /* The block / settings structs are in-out parameters that both variants "correct" in slightly different
       situations (e.g. the parallel one fills in re/ce even when no pair is selected).  C07 speaks of the
       matrix only, so a difference here is counted, not reported. */
    if (memcmp(&s, &ser_set, sizeof s)) r->info_settings = 1;
    if (b.rb != ser_block.rb || b.re != ser_block.re || b.cb != ser_block.cb || b.ce != ser_block.ce || b.triu != ser_block.triu) r->info_block = 1;
}

/* ---- bookkeeping ---------------------------------------------------------------------------- */
static struct {
    uint64_t big_cases;
    uint64_t runs, par_runs, violations, serial_crashed, serial_rejected, events, switches, forced, chunks, denied, stalls, race_directed, fair, nontrivial;
    uint64_t by_fn[6], by_loop[SIMOMP_LOOP_NKINDS], by_pre[SIMOMP_PRE_NKINDS], t1, t_gt_rows, t64, no_chunk_threads, racy_runs, racy_addrs, empty_block, leaks, heapdamage, info_settings, info_block;
    uint64_t digest;
} A;

static void account(const case_t *c, const result_t *r) {
    const simomp_stats_t *st = simomp_stats();
    A.par_runs++; A.events += r->events; A.switches += st->switches; A.forced += st->forced_switches; A.chunks += st->chunks; A.denied += st->denied;
    A.stalls += st->stalls; A.race_directed += st->race_directed; A.fair += st->fair_fallback; A.no_chunk_threads += st->threads_without_chunk;
    A.by_fn[c->fn]++; A.by_loop[c->loop_kind]++; A.by_pre[c->pre_kind]++;
    long rows = (ser_block.re ? ser_block.re : c->nr) - ser_block.rb;
    if (c->T == 1) A.t1++; if (c->T > rows) A.t_gt_rows++; if (c->T == 64) A.t64++;
    if (r->racy) { A.racy_runs++; A.racy_addrs += (uint64_t)r->racy; }
    if (ser_len == 0) A.empty_block++;
    if (c->nr >= 10) A.big_cases++;
    if (r->info_settings) A.info_settings++; if (r->info_block) A.info_block++;
    long leaks = 0; int hc = simomp_heap_check(&leaks);
    if (hc & 4) A.leaks += (uint64_t)leaks; if (hc & 3) { A.heapdamage++; if (getenv("C07_DUMP_HEAPDAMAGE")) { FILE *f = fopen(getenv("C07_DUMP_HEAPDAMAGE"), "a"); if (f) { write_case(f, c, "heap-damage-info", 0, 0); fclose(f); } } }
    fnv(&A.digest, r->acc); fnv(&A.digest, r->sched); fnv(&A.digest, r->outhash);
}

static FILE *fsum, *fhash, *fdig; static char path_case[4096], path_sample[4096]; static int sample_written;

static void open_outputs(const char *outdir, const char *tag) {
    char p[4096];
    snprintf(p, sizeof p, "%s/%s.summary", outdir, tag); fsum = fopen(p, "w");
    snprintf(p, sizeof p, "%s/%s.hashes", outdir, tag); fhash = fopen(p, "wb");
    snprintf(p, sizeof p, "%s/%s.digests", outdir, tag); fdig = fopen(p, "w");
    snprintf(path_case, sizeof path_case, "%s/%s.case", outdir, tag);
    if (getenv("C07_SAMPLE")) snprintf(path_sample, sizeof path_sample, "%s/%s.sample", outdir, tag);
    if (!fsum || !fhash || !fdig) harness_die("cannot open output files");
}

static void write_summary(const char *mode, int exitcode, const char *vclass) {
    fprintf(fsum, "{\"mode\":\"%s\",\"exit\":%d,\"violation_class\":%s%s%s,", mode, exitcode, vclass ? "\"" : "", vclass ? vclass : "null", vclass ? "\"" : "");
    fprintf(fsum, "\"cases\":%llu,\"runs\":%llu,\"violations\":%llu,\"serial_crashed\":%llu,\"serial_rejected\":%llu,\"events\":%llu,\"switches\":%llu,\"forced_switches\":%llu,"
            "\"chunks\":%llu,\"denied\":%llu,\"stalls\":%llu,\"race_directed\":%llu,\"fair_fallback\":%llu,\"nontrivial\":%llu,",
            (unsigned long long)A.runs, (unsigned long long)A.par_runs, (unsigned long long)A.violations, (unsigned long long)A.serial_crashed, (unsigned long long)A.serial_rejected,
            (unsigned long long)A.events, (unsigned long long)A.switches, (unsigned long long)A.forced, (unsigned long long)A.chunks, (unsigned long long)A.denied,
            (unsigned long long)A.stalls, (unsigned long long)A.race_directed, (unsigned long long)A.fair, (unsigned long long)A.nontrivial);
    fprintf(fsum, "\"by_fn\":[%llu,%llu,%llu,%llu,%llu,%llu],", (unsigned long long)A.by_fn[0], (unsigned long long)A.by_fn[1], (unsigned long long)A.by_fn[2], (unsigned long long)A.by_fn[3], (unsigned long long)A.by_fn[4], (unsigned long long)A.by_fn[5]);
    fprintf(fsum, "\"by_loop\":[%llu,%llu,%llu,%llu,%llu,%llu],", (unsigned long long)A.by_loop[0], (unsigned long long)A.by_loop[1], (unsigned long long)A.by_loop[2], (unsigned long long)A.by_loop[3], (unsigned long long)A.by_loop[4], (unsigned long long)A.by_loop[5]);
    fprintf(fsum, "\"by_preempt\":[%llu,%llu,%llu,%llu,%llu],", (unsigned long long)A.by_pre[0], (unsigned long long)A.by_pre[1], (unsigned long long)A.by_pre[2], (unsigned long long)A.by_pre[3], (unsigned long long)A.by_pre[4]);
    fprintf(fsum, "\"threads_1\":%llu,\"threads_gt_rows\":%llu,\"threads_64\":%llu,\"threads_without_chunk\":%llu,\"racy_runs\":%llu,\"racy_addrs\":%llu,\"empty_block\":%llu,\"leaked_blocks\":%llu,\"heap_damage_runs\":%llu,\"info_settings_struct_differs\":%llu,\"info_block_struct_differs\":%llu,\"big_cases\":%llu,",
            (unsigned long long)A.t1, (unsigned long long)A.t_gt_rows, (unsigned long long)A.t64, (unsigned long long)A.no_chunk_threads, (unsigned long long)A.racy_runs, (unsigned long long)A.racy_addrs,
            (unsigned long long)A.empty_block, (unsigned long long)A.leaks, (unsigned long long)A.heapdamage, (unsigned long long)A.info_settings, (unsigned long long)A.info_block, (unsigned long long)A.big_cases);
    fprintf(fsum, "\"digest\":\"%016llx\"}\n", (unsigned long long)A.digest);
    fclose(fsum); fclose(fhash); fclose(fdig);
}

static void note_run(uint64_t subseed, const case_t *c, const result_t *r, int pass) {
    const simomp_stats_t *st = simomp_stats();
    fprintf(fdig, "%llu %d %016llx %016llx %016llx %llu\n", (unsigned long long)subseed, pass, (unsigned long long)r->acc, (unsigned long long)r->sched, (unsigned long long)r->outhash, (unsigned long long)r->events);
    /* non-trivial: at least two threads executed repository code, at least one pre-emptive switch, at least one pair computed */
    if (st->threads_ran >= 2 && st->switches >= 1 && ser_len > 0) {
        uint64_t h = r->sched; fnv(&h, (uint64_t)c->fn); fnv(&h, (uint64_t)simomp_threads_used());
        fwrite(&h, sizeof h, 1, fhash); A.nontrivial++;
        if (!sample_written && path_sample[0] && c->ns <= 4 && simomp_trace_nswitch() <= 40) {
            FILE *f = fopen(path_sample, "w");
            if (f) { write_case(f, c, NULL, subseed, 1); fclose(f); sample_written = 1; }
        }
    }
}

static int violation(const case_t *c, const char *vclass, uint64_t subseed) {
    FILE *f = fopen(path_case, "w");
    if (!f) harness_die("cannot write case file");
    write_case(f, c, vclass, subseed, 1);
    fclose(f);
    A.violations++;
    return 1;
}

/* run one case under its (random) schedule; returns 1 on violation */
static int one_case(case_t *c, workspace *w, uint64_t subseed) {
    result_t r;
    A.runs++;
    int rc = run_serial(c, w);
    if (rc == -2) { A.serial_crashed++; return 0; }
    if (rc != 0) { A.serial_rejected++; return 0; }
    if (c->pre_kind == SIMOMP_PRE_RACE) {
        /* pass 1: plain Bernoulli run with the shadow map recording; pass 2: directed at the racy addresses found */
        case_t c1 = *c; c1.pre_kind = SIMOMP_PRE_BERNOULLI; c1.pre_param = 16;
        simomp_shadow_clear();
        run_parallel(&c1, w, NULL, 0, 1, &r);
        account(&c1, &r); note_run(subseed, &c1, &r, 1);
        if (r.vclass) return violation(&c1, r.vclass, subseed);
        c->sched_seed ^= 0x5555;
        run_parallel(c, w, NULL, 0, 0, &r);
    } else {
        simomp_shadow_clear();
        run_parallel(c, w, NULL, 0, 1, &r);
    }
    account(c, &r); note_run(subseed, c, &r, 0);
    if (r.vclass) return violation(c, r.vclass, subseed);
    return 0;
}

int main(int argc, char **argv) {
    static workspace w; static case_t c; static trace_t tr;
    if (argc < 2) harness_die("usage");
    install_handlers();
    A.digest = 0xcbf29ce484222325ull;
    if (!strcmp(argv[1], "gen") && argc == 7) {
        uint64_t seed = strtoull(argv[2], NULL, 10); long from = atol(argv[3]), count = atol(argv[4]);
        open_outputs(argv[5], argv[6]);
        for (long i = from; i < from + count; i++) {
            uint64_t s = seed * 0x9E3779B97F4A7C15ull + (uint64_t)i; uint64_t sub = splitmix(&s);
            gen_case(&c, sub);
            if (one_case(&c, &w, (uint64_t)i)) {
                fprintf(fsum, "{\"first_violation_index\":%ld}\n", i);
                write_summary("gen", 1, "see-case"); return 1;
            }
        }
        write_summary("gen", 0, NULL);
        return 0;
    }
    if (!strcmp(argv[1], "sched") && argc == 7) {
        if (read_case(argv[2], &c, &tr)) harness_die("cannot read case");
        uint64_t seed = strtoull(argv[3], NULL, 10); long count = atol(argv[4]);
        open_outputs(argv[5], argv[6]);
        int keep_cfg = getenv("C07_KEEP_POLICY") != NULL;
        for (long i = 0; i < count; i++) {
            uint64_t q = seed * 0x9E3779B97F4A7C15ull + (uint64_t)i;
            c.sched_seed = splitmix(&q);
            if (!keep_cfg) {
                c.loop_kind = (int)rnd(&q, SIMOMP_LOOP_NKINDS); c.loop_chunk = 1 + (long)rnd(&q, 3);
                static const long ps[4] = {4, 16, 64, 256};
                int k = (int)rnd(&q, 8);
                if (k == 0) { c.pre_kind = SIMOMP_PRE_PCT; c.pre_param = (long)rnd(&q, 6); }
                else if (k == 1) { c.pre_kind = SIMOMP_PRE_STALL; c.pre_param = 64; }
                else if (k == 2) { c.pre_kind = SIMOMP_PRE_RACE; c.pre_param = 256; }
                else { c.pre_kind = SIMOMP_PRE_BERNOULLI; c.pre_param = ps[rnd(&q, 4)]; }
            }
            case_t cc = c;
            if (one_case(&cc, &w, (uint64_t)i)) { write_summary("sched", 1, "see-case"); return 1; }
        }
        write_summary("sched", 0, NULL);
        return 0;
    }
    if (!strcmp(argv[1], "replay") && argc == 5) {
        if (read_case(argv[2], &c, &tr)) harness_die("cannot read case");
        open_outputs(argv[3], argv[4]);
        if (!c.has_trace) harness_die("case has no decision trace");
        A.runs++;
        int rc = run_serial(&c, &w);
        if (rc) { write_summary("replay", 2, "serial-failed"); return 2; }
        result_t r;
        simomp_shadow_clear();
        run_parallel(&c, &w, &tr, 1, 1, &r);
        account(&c, &r); note_run(0, &c, &r, 0);
        if (r.invalid) { write_summary("replay", 3, "invalid-plan"); return 3; }
        if (r.vclass) { violation(&c, r.vclass, 0); write_summary("replay", 1, r.vclass); return 1; }
        write_summary("replay", 0, NULL);
        return 0;
    }
    harness_die("usage");
    return 2;
}
