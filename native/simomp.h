/* Public control interface of the simulated OpenMP runtime (simomp.c). */
#ifndef SIMOMP_H
#define SIMOMP_H
#include <stddef.h>
#include <stdint.h>

enum { SIMOMP_LOOP_STATIC_BLOCK = 0, SIMOMP_LOOP_STATIC_CYCLIC = 1, SIMOMP_LOOP_DYNAMIC = 2, SIMOMP_LOOP_GUIDED = 3,
       SIMOMP_LOOP_ADV_PRE = 4, SIMOMP_LOOP_ADV_DEMAND = 5, SIMOMP_LOOP_NKINDS = 6 };
enum { SIMOMP_PRE_NONE = 0, SIMOMP_PRE_BERNOULLI = 1, SIMOMP_PRE_PCT = 2, SIMOMP_PRE_STALL = 3, SIMOMP_PRE_RACE = 4, SIMOMP_PRE_NKINDS = 5 };
enum { SIMOMP_ST_OK = 0, SIMOMP_ST_DEADLOCK = 1, SIMOMP_ST_BUDGET = 2, SIMOMP_ST_BADPLAN = 3 };

typedef struct {
    uint64_t events, switches, forced_switches, chunks, denied, stalls, race_directed, barriers, lock_waits;
    uint64_t regions, threads_without_chunk, threads_ran, fair_fallback;
    uint64_t allocs, frees, double_free, bad_free, set_num_threads_calls;
} simomp_stats_t;

void simomp_reset(void);
void simomp_set_seed(uint64_t seed);
void simomp_set_threads(int T);
void simomp_set_loop_policy(int kind, long chunk);
void simomp_set_preempt_policy(int kind, long param);
void simomp_set_budget(uint64_t max_events);
void simomp_set_estimate(uint64_t est_events);
void simomp_set_shadow(int on);
void simomp_shadow_clear(void);
void simomp_register_region(void *p, size_t sz);
void simomp_count_begin(void);
uint64_t simomp_count_end(void);
void simomp_replay_begin(int T);
void simomp_replay_plan(int tid, long lb, long ub);
void simomp_replay_switch(uint64_t ev, int to);
int simomp_status(void);
const simomp_stats_t *simomp_stats(void);
uint64_t simomp_events(void);
uint64_t simomp_access_digest(void);
uint64_t simomp_sched_digest(void);
int simomp_threads_used(void);
long simomp_trace_nswitch(void);
void simomp_trace_switch(long i, uint64_t *ev, int *to);
long simomp_trace_nplan(int tid);
void simomp_trace_plan(int tid, long j, long *lb, long *ub);
long simomp_shadow_racy(void);
int simomp_heap_check(long *leaks);
void simomp_set_junk(int variant);   /* 0: serial twin, 1: parallel run */
#endif
