"""threadsim — deterministic interleaving of real caller threads (baton passing).

Several caller threads each run one library call.  Exactly one thread holds the baton and runs; every
`line` event inside the library's own Python files (sys.settrace) is a pre-emption point at which the
seeded scheduler may hand the baton to another thread.  All PRNG draws are made by the baton
holder, so one seed is one exactly repeatable interleaving; the kernel scheduler decides nothing.
Calls into the C engine hold the GIL throughout (no `nogil` in the .pyx files) and are atomic here too.
"""
import os
import sys
import threading


class ThreadSimError(Exception):
    pass


class ThreadSim:
    def __init__(self, rng, pkgdir, switch_one_in=12, max_events=400000, wall=60.0):
        self.rng = rng
        self.pkgdir = os.path.abspath(pkgdir) + os.sep
        self.switch_one_in = switch_one_in
        self.max_events = max_events
        self.wall = wall
        self.nevents = 0
        self.nswitches = 0
        self.log = []

    # -- tracing ---------------------------------------------------------------------------------
    def _trace(self, frame, event, arg):
        if event == "call" and frame.f_code.co_filename.startswith(self.pkgdir):
            return self._local
        return None

    def _local(self, frame, event, arg):
        if event == "line":
            self._point(frame)
        return self._local

    def _point(self, frame):
        i = self.index[threading.get_ident()]
        if self.cur != i:
            raise ThreadSimError("thread %d runs without the baton" % i)
        self.nevents += 1
        if self.nevents > self.max_events:
            raise ThreadSimError("event budget exceeded")
        if self.rng.below(self.switch_one_in) != 0:
            return
        others = [j for j in range(self.n) if j != i and not self.done[j]]
        if not others:
            return
        j = others[self.rng.below(len(others))]
        self.nswitches += 1
        self.log.append((i, os.path.basename(frame.f_code.co_filename), frame.f_lineno, j))
        self.events[i].clear()
        self.cur = j
        self.events[j].set()
        if not self.events[i].wait(self.wall):
            raise ThreadSimError("thread %d never got the baton back" % i)

    # -- running ---------------------------------------------------------------------------------
    def run(self, fns):
        self.n = len(fns)
        self.events = [threading.Event() for _ in fns]
        self.done = [False] * self.n
        self.results = [None] * self.n
        self.index = {}
        self.all_done = threading.Event()
        self.cur = None
        registered = threading.Barrier(self.n + 1)

        def worker(i):
            self.index[threading.get_ident()] = i
            registered.wait()
            if not self.events[i].wait(self.wall):
                self.results[i] = ("harness", "never scheduled")
                return
            sys.settrace(self._trace)
            try:
                self.results[i] = ("ok", fns[i]())
            except ThreadSimError as exc:
                self.results[i] = ("harness", str(exc))
            except BaseException as exc:  # noqa
                self.results[i] = ("exc", type(exc).__name__)
            finally:
                sys.settrace(None)
                self.done[i] = True
                rest = [j for j in range(self.n) if not self.done[j]]
                if rest:
                    j = rest[self.rng.below(len(rest))]
                    self.cur = j
                    self.events[j].set()
                else:
                    self.all_done.set()

        threads = [threading.Thread(target=worker, args=(i,), daemon=True) for i in range(self.n)]
        for t in threads:
            t.start()
        registered.wait()
        first = self.rng.below(self.n)
        self.cur = first
        self.events[first].set()
        if not self.all_done.wait(self.wall * 2):
            raise ThreadSimError("caller threads did not finish")
        for t in threads:
            t.join(self.wall)
        for r in self.results:
            if r is None or r[0] == "harness":
                raise ThreadSimError("thread simulation failed: %r" % (r,))
        return self.results
