"""sessions — cooperative scheduler and generic runner for API-history checks (DESIGN.md §3.3).

A history is {"setup": {...}, "ops": [op, ...]} where every op is a JSON dict with at least
{"op": name, "s": session-number}.  The flat, globally ordered op list IS the schedule and the
replay file.  A property module provides

    PROP, TIERS, COMPONENTS, ASSUMPTIONS, RULE
    gen_history(rng)            -> history       (session programs interleaved by the seeded scheduler)
    execute(history)            -> {"violations": [{"class", "op", "detail"}], "counters": {..}, "nontrivial": bool}
    signature(history, viol)    -> str           (call-site level identification, for known findings)
    shrink(history)             -> iterable of simpler candidate histories (argument shrinking)

`execute` must tolerate arbitrary sub-lists of ops (ops naming a handle that does not exist are
skipped) so that ddmin can remove anything.
"""
import importlib
import json
import os
import subprocess
import sys
import time

from . import build, core


def interleave(rng, programs):
    """Seeded scheduler: merge per-session op lists into one global order, one op at a time."""
    pos = [0] * len(programs)
    out = []
    live = [i for i, p in enumerate(programs) if p]
    while live:
        # mostly uniform; sometimes let one session run a burst (so both fine and coarse interleavings occur)
        i = live[rng.below(len(live))]
        burst = 1 + (rng.below(4) if rng.below(4) == 0 else 0)
        for _ in range(burst):
            if pos[i] >= len(programs[i]):
                break
            op = dict(programs[i][pos[i]])
            op["s"] = i
            out.append(op)
            pos[i] += 1
        live = [k for k in live if pos[k] < len(programs[k])]
    return out


class OpTimeout(Exception):
    pass


class op_timeout:
    """Wall-clock guard around ONE library call that normally takes milliseconds: a call that is still running
    after `sec` seconds is an endless loop in the code under test (reported as violation class "hang")."""

    def __init__(self, sec):
        self.sec = sec

    def _fire(self, signum, frame):
        raise OpTimeout()

    def __enter__(self):
        import signal
        self.old = signal.signal(signal.SIGALRM, self._fire)
        signal.setitimer(signal.ITIMER_REAL, self.sec)
        return self

    def __exit__(self, *a):
        import signal
        signal.setitimer(signal.ITIMER_REAL, 0)
        signal.signal(signal.SIGALRM, self.old)
        return False


def op_kinds_hash(history):
    return core.hash_obj([[o.get("op"), o.get("s")] for o in history["ops"]])


def sessions_interleaved(history):
    """True iff at least two sessions actually alternate in the op list."""
    seq = [o.get("s") for o in history["ops"]]
    changes = sum(1 for a, b in zip(seq, seq[1:]) if a != b)
    return len(set(seq)) >= 2 and changes >= 2


# ------------------------------------------------------------------------------------------------

def _load(modname):
    return importlib.import_module(modname)


def _execute(mod, h):
    """mod.execute under a whole-history wall-clock guard for modules that have no per-op guards of their own."""
    wall = getattr(mod, "HISTORY_WALL", None)
    if not wall:
        return mod.execute(h)
    try:
        with op_timeout(wall):
            return mod.execute(h)
    except OpTimeout:
        return {"violations": [{"class": "hang", "op": None, "detail": "the history did not finish within %d s (normal: milliseconds)" % wall}], "counters": {"op_timeout": 1}, "nontrivial": False, "digest": "hang"}


def batch_entry(modname, cache, pkgkind, seed, frm, count, progress):
    p = os.path.join(cache, pkgkind)
    if p not in sys.path:
        sys.path.insert(0, p)
    import dtaidistance
    if not os.path.abspath(dtaidistance.__file__).startswith(os.path.abspath(p)):
        raise core.HarnessError("wrong dtaidistance on path: " + dtaidistance.__file__)
    mod = _load(modname)
    pfd = os.open(progress, os.O_WRONLY | os.O_CREAT, 0o644) if progress else None
    res = {"runs": 0, "ops": 0, "violations": [], "hashes": set(), "counters": {}, "samples": [], "digest": [], "known": {}}
    cnt = res["counters"]
    known = core.load_known_findings(mod.PROP)
    for i in range(frm, frm + count):
        rng = core.Streams(core.derive(seed, mod.PROP, i))
        h = mod.gen_history(rng)
        if pfd is not None:
            os.pwrite(pfd, b"%12d" % i, 0)
        r = _execute(mod, h)
        if hasattr(mod, "aux_digest"):
            res.setdefault("aux", {})[i] = mod.aux_digest(h)
        res["runs"] += 1
        res["ops"] += len(h["ops"])
        for k, v in r.get("counters", {}).items():
            cnt[k] = cnt.get(k, 0) + v
        if r.get("nontrivial", True):
            res["hashes"].add(getattr(mod, "history_hash", op_kinds_hash)(h))
        res["digest"].append([i, r.get("digest"), len(r["violations"])])
        if len(res["samples"]) < 1 and not r["violations"] and i % 7 == 3 and len(json.dumps(h)) < 5000:
            res["samples"].append(h)
        if r["violations"]:
            # violations whose call-site signature is a listed known finding are counted and one example kept; they neither
            # stop the batch nor hide other violations of the same history
            fresh = []
            for v in r["violations"]:
                k = core.match_known(known, mod.signature(h, v))
                if k is None:
                    fresh.append(v)
                else:
                    ent = res["known"].setdefault(k["id"], {"count": 0, "index": i, "history": h, "violation": v})
                    ent["count"] += 1
            if fresh:
                res["violations"].append({"index": i, "history": h, "violations": fresh})
                if len(res["violations"]) >= 8:
                    break
    res["hashes"] = sorted(res["hashes"])
    res["digest"] = core.hash_obj(res["digest"])
    if pfd is not None:
        os.close(pfd)
    return res


def aux_entry(modname, cache, pkgkind, seed, frm, count):
    """Second configuration of a check (e.g. NumPy made unimportable for the library): per-history digests only."""
    p = os.path.join(cache, pkgkind)
    if p not in sys.path:
        sys.path.insert(0, p)
    mod = _load(modname)
    out = {}
    for i in range(frm, frm + count):
        h = mod.gen_history(core.Streams(core.derive(seed, mod.PROP, i)))
        out[i] = mod.aux_digest(h)
    return out


def aux_one_entry(modname, cache, pkgkind, history):
    p = os.path.join(cache, pkgkind)
    if p not in sys.path:
        sys.path.insert(0, p)
    return _load(modname).aux_digest(history)


def exec_entry(modname, cache, pkgkind, history):
    p = os.path.join(cache, pkgkind)
    if p not in sys.path:
        sys.path.insert(0, p)
    mod = _load(modname)
    return _execute(mod, history)


def exec_many_entry(modname, cache, pkgkind, histories, vclass):
    """Return index of the first history that still shows a violation of class vclass, or -1."""
    p = os.path.join(cache, pkgkind)
    if p not in sys.path:
        sys.path.insert(0, p)
    mod = _load(modname)
    for k, h in enumerate(histories):
        try:
            r = _execute(mod, h)
        except Exception:  # a malformed candidate is simply not a reproduction
            continue
        if any(v["class"] == vclass for v in r["violations"]):
            return k
    return -1


class Runner:
    def __init__(self, modname, pkgkind="pkg", log=print):
        self.modname = modname
        self.mod = _load(modname)
        self.pkgkind = pkgkind
        self.log = log
        self.cache = build.ensure_build()

    def iso(self, func, *args, wall=900):
        done, _ = core.fanout_isolated("sim.sessions", func, [(self.modname, self.cache, self.pkgkind) + args], nproc=1, task_wall=wall)
        return done[0][1]

    def execute_iso(self, history):
        r = self.iso("exec_entry", history)
        if "crashed" in r:
            return {"violations": [{"class": "crash", "op": None, "detail": "process died (%s): %s" % (r["crashed"], r["stderr"][-300:])}], "counters": {}}
        return r

    def fails(self, history, vclass):
        r = self.execute_iso(history)
        return any(v["class"] == vclass for v in r["violations"])

    def first_failing(self, cands, vclass):
        if not cands:
            return -1
        if vclass == "crash":
            for k, h in enumerate(cands):
                if self.fails(h, vclass):
                    return k
            return -1
        r = self.iso("exec_many_entry", cands, vclass)
        if isinstance(r, dict) and "crashed" in r:
            # some candidate crashes the process: fall back to one by one
            for k, h in enumerate(cands):
                if self.fails(h, vclass):
                    return k
            return -1
        return r

    def minimise(self, history, vclass):
        cur = history
        if vclass in getattr(self.mod, "NO_MINIMISE", ()):
            return cur
        # 1. ddmin over the op list (batched: each ddmin step evaluates its candidates in one child process)
        ops = list(cur["ops"])
        n = 2
        budget = 60
        while len(ops) >= 2 and budget > 0:
            chunk = max(1, len(ops) // n)
            subsets = [ops[i:i + chunk] for i in range(0, len(ops), chunk)]
            cands = []
            for i in range(len(subsets)):
                comp = [x for j, s in enumerate(subsets) if j != i for x in s]
                if comp:
                    cands.append(dict(cur, ops=comp))
            budget -= 1
            k = self.first_failing(cands, vclass)
            if k >= 0:
                ops = cands[k]["ops"]
                n = max(n - 1, 2)
            else:
                if n >= len(ops):
                    break
                n = min(len(ops), n * 2)
        cur = dict(cur, ops=ops)
        # 2. argument shrinking to a fixed point
        for _ in range(12):
            cands = list(self.mod.shrink(cur))[:60]
            k = self.first_failing(cands, vclass)
            if k < 0:
                break
            cur = cands[k]
        return cur

    def run(self, tier, seed):
        mod = self.mod
        PROP = mod.PROP
        t_start = time.time()
        scale = float(os.environ.get("VERIF_SCALE", "1"))
        n = max(16, int(mod.TIERS[tier] * scale))
        per = getattr(mod, "BATCH", 250)
        pdir = os.path.join(build.CACHE, "progress-%s-%d" % (PROP, os.getpid()))
        os.makedirs(pdir, exist_ok=True)
        tasks = [(self.modname, self.cache, self.pkgkind, seed, f, min(per, n - f), os.path.join(pdir, "p%d" % f)) for f in range(0, n, per)]
        stop_after = getattr(mod, "STOP_AFTER_VIOLATIONS", 24)
        found = [0]

        def stop_when(r):
            if "crashed" in r:
                return True
            found[0] += len(r["violations"])
            return found[0] >= stop_after

        try:
            done, wall = core.fanout_isolated("sim.sessions", "batch_entry", tasks, task_wall=getattr(mod, "TASK_WALL", 3000), stop_when=stop_when)
            runs = ops = 0
            aux_first = {}
            known_seen = {}
            cnt = {}
            hashes = set()
            samples = []
            viols = []
            dig = []
            crash_reports = []
            for t, r in done:
                if "crashed" in r:
                    if r["crashed"] == -999:
                        raise core.HarnessError("%s worker exceeded its wall-clock limit" % PROP)
                    try:
                        with open(t[6]) as pf:
                            idx = int(pf.read().strip())
                    except (OSError, ValueError):
                        raise core.HarnessError("%s worker died before its first history: %s" % (PROP, r["stderr"][-1500:]))
                    h = mod.gen_history(core.Streams(core.derive(seed, PROP, idx)))
                    rr = self.execute_iso(h)
                    if any(v["class"] == "crash" for v in rr["violations"]):
                        viols.append({"index": idx, "history": h, "violations": [v for v in rr["violations"] if v["class"] == "crash"]})
                        continue
                    # The history in flight does not crash alone: the crash needs what earlier histories of the batch did to the
                    # process (heap damage by the code under test).  The batch up to that history is then the replay unit.
                    frm = t[4]
                    rb = self.iso("batch_entry", seed, frm, idx - frm + 1, None)
                    again = isinstance(rb, dict) and "crashed" in rb
                    by_signal = r["crashed"] in (-4, -6, -7, -8, -11)      # SIGILL, SIGABRT, SIGBUS, SIGFPE, SIGSEGV
                    if not again and not by_signal:
                        raise core.HarnessError("%s worker died with status %s (history %d in flight); neither the history nor its batch reproduces it: %s"
                                                % (PROP, r["crashed"], idx, r["stderr"][-1500:]))
                    crash_reports.append({"property": PROP, "batch": [seed, frm, idx - frm + 1], "index": idx, "setup": h["setup"], "ops": h["ops"],
                                          "violation": {"class": "crash", "op": None, "detail": "the worker process died with status %s while history %d of its batch was in flight: %s"
                                                                                            % (r["crashed"], idx, r["stderr"][-400:])},
                                          "nondeterministic": not again,
                                          "note": "the history alone does not crash: the crash needs what earlier histories of the batch did to the process" +
                                                  ("" if again else "; the batch did not crash again in one fresh attempt (replay re-tries)"),
                                          "how_to_replay": "./check %s --replay <this file>" % PROP})
                    continue
                runs += r["runs"]; ops += r["ops"]
                aux_first.update(r.get("aux", {}))
                for kid, ent in r.get("known", {}).items():
                    e0 = known_seen.setdefault(kid, {"count": 0, "index": ent["index"], "history": ent["history"], "violation": ent["violation"]})
                    e0["count"] += ent["count"]
                for k, v in r["counters"].items():
                    cnt[k] = cnt.get(k, 0) + v
                hashes.update(r["hashes"])
                samples.extend(r["samples"][:1] if len(samples) < 3 else [])
                viols.extend(r["violations"])
                dig.append([t[4], r["digest"]])
        finally:
            import shutil
            shutil.rmtree(pdir, ignore_errors=True)
        self.log("[%s] %d histories, %d ops, %d distinct interleaved op sequences, %d histories with violations, %.1f s" %
                 (PROP, runs, ops, len(hashes), len(viols), wall))
        known = core.load_known_findings(PROP)
        new_violations, known_hits = [], []
        for kid in sorted(known_seen):
            ent = known_seen[kid]
            k = next(e for e in known if e["id"] == kid)
            # the listed finding must still reproduce from its example, in a fresh process
            if not self.fails(ent["history"], ent["violation"]["class"]):
                raise core.HarnessError("%s known finding %s was matched in the batch but does not reproduce in a fresh process" % (PROP, kid))
            known_hits.append(k)
            cnt["known_finding:" + kid] = ent["count"]
        import glob
        for old in glob.glob(os.path.join(core.REPLAY_DIR, PROP + "-*.json")):
            os.remove(old)
        for rep in crash_reports:
            path = core.save_replay(PROP, "%s-%d-crash-in-batch" % (seed, rep["index"]), rep)
            self.log("[%s] a worker died with history %d in flight; reproduces %s: %s" % (PROP, rep["index"], "only as part of its batch" if not rep["nondeterministic"] else "not in one fresh attempt (reported as observed)", path))
            new_violations.append(path)
        seen = set()
        nmin = 0
        for v in sorted(viols, key=lambda v: v["index"]):
            for viol in v["violations"]:
                pre_sig = mod.signature(v["history"], viol)
                if pre_sig in seen:
                    continue
                seen.add(pre_sig)
                if nmin >= getattr(mod, "MAX_MINIMISE", 6):
                    continue
                nmin += 1
                vclass = viol["class"]
                r0 = self.execute_iso(v["history"])
                if not any(x["class"] == vclass for x in r0["violations"]):
                    if not r0["violations"]:
                        # Not reproducible from the history alone: the outcome depends on what the process did before (typical
                        # for memory misuse in the code under test - use after free, uninitialised reads).  The batch, re-run
                        # from its start in a fresh process, is then the replay unit.
                        frm = (v["index"] // per) * per
                        cnt_to = v["index"] - frm + 1
                        rb = self.iso("batch_entry", seed, frm, cnt_to, None)
                        hit = None
                        if isinstance(rb, dict) and "crashed" not in rb:
                            hit = next((x for x in rb["violations"] if x["index"] == v["index"]), None)
                        if hit is None:
                            # second attempt: the batch exactly as the worker ran it (full length, same progress file use)
                            rb = self.iso("batch_entry", seed, frm, per, os.path.join(build.CACHE, "progress-retry-%d" % os.getpid()))
                            if isinstance(rb, dict) and "crashed" not in rb:
                                hit = next((x for x in rb["violations"] if x["index"] == v["index"]), None)
                                if hit is not None:
                                    cnt_to = per
                        if hit is None:
                            # The unchanged tree is deterministic (self-test), so a violation that one worker observed but that no
                            # fresh process shows again means the code under test itself behaves nondeterministically (reads of
                            # freed memory that depend on the allocator's cache state, ...).  The in-process observation is reported
                            # as it was seen; its replay file re-tries history and batch several times.
                            rep = {"property": PROP, "setup": v["history"]["setup"], "ops": v["history"]["ops"], "violation": viol, "nondeterministic": True,
                                   "batch": [seed, frm, per], "index": v["index"],
                                   "note": "observed by a batch worker (live result vs fresh-context twin in the same process); not reproducible in fresh processes",
                                   "how_to_replay": "./check %s --replay <this file>   (re-tries; exit 1 if any attempt shows it again)" % PROP}
                            path = core.save_replay(PROP, "%s-%d-nondeterministic-%s" % (seed, v["index"], vclass.replace("/", "_")[:40]), rep)
                            self.log("[%s] violation %s at history %d was observed once but does not reproduce in fresh processes (nondeterministic code under test): %s" % (PROP, vclass, v["index"], path))
                            new_violations.append(path)
                            continue
                        rep = {"property": PROP, "batch": [seed, frm, cnt_to], "index": v["index"], "violation": hit["violations"][0],
                               "history": v["history"], "note": "reproduces only as part of its batch (process-history dependent)",
                               "how_to_replay": "./check %s --replay <this file>" % PROP}
                        path = core.save_replay(PROP, "%s-%d-batch-%s" % (seed, v["index"], vclass.replace("/", "_")[:40]), rep)
                        self.log("[%s] violation %s at history %d reproduces only as part of its batch: %s" % (PROP, vclass, v["index"], path))
                        new_violations.append(path)
                        continue
                    # the same history shows a violation of another class in a fresh process (e.g. a wall-clock "hang"
                    # guard firing or not under load): report what the fresh process shows
                    vclass = r0["violations"][0]["class"]
                small = self.minimise(v["history"], vclass)
                rr = self.execute_iso(small)
                vv = [x for x in rr["violations"] if x["class"] == vclass]
                if not vv:
                    small = v["history"]
                    rr = r0 if any(x["class"] == vclass for x in r0["violations"]) else self.execute_iso(small)
                    vv = [x for x in rr["violations"] if x["class"] == vclass]
                    if not vv:
                        raise core.HarnessError("%s history %d lost its violation on re-execution" % (PROP, v["index"]))
                sig = mod.signature(small, vv[0])
                if sig in seen and sig != pre_sig:
                    continue
                seen.add(sig)
                k = core.match_known(known, sig)
                if k is not None:
                    known_hits.append(k)
                    continue
                small = dict(small)
                small.update({"property": PROP, "violation": vv[0], "signature": sig, "found_at": {"seed": seed, "index": v["index"]},
                              "how_to_replay": "./check %s --replay <this file>" % PROP})
                path = core.save_replay(PROP, "%s-%d-%s" % (seed, v["index"], vclass.replace("/", "_").replace(":", "_")[:40]), small)
                p = subprocess.run([sys.executable, os.path.join(core.VERIF, "sim", "main.py"), PROP, "--replay", path], capture_output=True, text=True, timeout=900)
                if p.returncode != 1:
                    raise core.HarnessError("%s minimised replay does not reproduce in a fresh process: %s\n%s" % (PROP, path, (p.stdout + p.stderr)[-1500:]))
                self.log("[%s] violation %s minimised to %d ops: %s" % (PROP, sig, len(small["ops"]), path))
                new_violations.append(path)
        # ---- second configuration (e.g. the library without NumPy): same histories, digests must agree ----
        aux_info = None
        if hasattr(mod, "AUX_ENV") and aux_first:
            idxs = sorted(aux_first)
            step = getattr(mod, "AUX_BATCH", 1000)
            atasks = [(self.modname, self.cache, self.pkgkind, seed, f, min(step, idxs[-1] + 1 - f)) for f in range(idxs[0], idxs[-1] + 1, step)]
            adone, awall = core.fanout_isolated("sim.sessions", "aux_entry", atasks, task_wall=3000, env=mod.AUX_ENV)
            compared = nsub = 0
            mism = []
            for t, r in adone:
                if "crashed" in r:
                    raise core.HarnessError("%s second-configuration worker died: %s" % (PROP, r["stderr"][-1500:]))
                for i, dg in r.items():
                    if i not in aux_first:
                        continue
                    compared += 1
                    nsub += len(dg)
                    if dg != aux_first[i]:
                        mism.append(i)
            aux_info = {"histories_compared": compared, "ops_compared": nsub, "mismatches": len(mism), "env": mod.AUX_ENV, "wall_s": round(awall, 2)}
            self.log("[%s] second configuration %r: %d histories / %d ops compared, %d mismatches" % (PROP, mod.AUX_ENV, compared, nsub, len(mism)))
            for i in mism[:3]:
                h = mod.gen_history(core.Streams(core.derive(seed, PROP, i)))
                a = self.iso("aux_one_entry", h)
                done2, _ = core.fanout_isolated("sim.sessions", "aux_one_entry", [(self.modname, self.cache, self.pkgkind, h)], nproc=1, env=mod.AUX_ENV)
                b = done2[0][1]
                if a == b:
                    raise core.HarnessError("%s configuration mismatch of history %d did not reproduce" % (PROP, i))
                k = next((j for j, (x, y) in enumerate(zip(a, b)) if x != y), 0)
                opi = a[k][0] if k < len(a) else None
                small = {"setup": h["setup"], "ops": [h["ops"][opi]] if opi is not None else h["ops"], "aux": True, "property": PROP,
                         "violation": {"class": "configuration-dependence", "op": 0, "detail": "op %r gives %r with NumPy importable and %r with %r" % (h["ops"][opi] if opi is not None else None, a[k] if k < len(a) else None, b[k] if k < len(b) else None, mod.AUX_ENV)},
                         "found_at": {"seed": seed, "index": i}}
                new_violations.append(core.save_replay(PROP, "%s-%d-configuration-dependence" % (seed, i), small))
        wall_total = time.time() - t_start
        if not samples:
            samples = [mod.gen_history(core.Streams(core.derive(seed, PROP, 0)))]
        coverage = {
            "evaluations": int(runs),
            "distinct_nontrivial": len(hashes),
            "rule": mod.RULE,
            "samples": samples[:3],
            "ops_executed": int(ops),
            "histories_per_hour": int(runs / max(wall, 1e-6) * 3600),
            "counters": dict(sorted(cnt.items())),
            "batch_digest": core.hash_obj(dig),
            "simulated_time": "n/a - histories are ordered by global op sequence number; no timers on this path",
            "components": mod.COMPONENTS,
            "known_findings_matched": sorted({k["id"] for k in known_hits}),
            "histories_with_violations": len(viols),
        }
        if aux_info:
            coverage["second_configuration"] = aux_info
        core.write_evidence(PROP, tier, seed, coverage, wall_total, len(new_violations), mod.ASSUMPTIONS)
        core.report_and_exit(PROP, new_violations, known_hits)

    def replay(self, path):
        with open(path) as f:
            h = json.load(f)
        if h.get("nondeterministic"):
            seed, frm, cnt_to = h["batch"]
            for attempt in range(3):
                r = self.execute_iso({"setup": h["setup"], "ops": h["ops"]})
                if r["violations"]:
                    print("VIOLATION property=%s replay=%s class=%s (attempt %d, history alone)" % (self.mod.PROP, path, r["violations"][0]["class"], attempt + 1))
                    sys.exit(1)
                rb = self.iso("batch_entry", seed, frm, cnt_to, None)
                if isinstance(rb, dict) and ("crashed" in rb or any(x["index"] == h["index"] for x in rb["violations"])):
                    print("VIOLATION property=%s replay=%s class=%s (attempt %d, batch)" % (self.mod.PROP, path, (h.get("violation") or {}).get("class"), attempt + 1))
                    sys.exit(1)
            print("OK replay passes (the recorded observation was nondeterministic: 6 attempts did not show it again)")
            sys.exit(0)
        if h.get("batch"):
            seed, frm, cnt_to = h["batch"]
            rb = self.iso("batch_entry", seed, frm, cnt_to, None)
            if isinstance(rb, dict) and ("crashed" in rb or any(x["index"] == h["index"] for x in rb["violations"])):
                print("VIOLATION property=%s replay=%s class=%s (batch replay)" % (self.mod.PROP, path, (h.get("violation") or {}).get("class")))
                sys.exit(1)
            print("OK replay passes")
            sys.exit(0)
        if h.get("aux"):
            a = self.iso("aux_one_entry", h)
            done2, _ = core.fanout_isolated("sim.sessions", "aux_one_entry", [(self.modname, self.cache, self.pkgkind, h)], nproc=1, env=self.mod.AUX_ENV)
            if a != done2[0][1]:
                print("VIOLATION property=%s replay=%s class=configuration-dependence %r vs %r" % (self.mod.PROP, path, a, done2[0][1]))
                sys.exit(1)
            print("OK replay passes")
            sys.exit(0)
        r = self.execute_iso(h)
        want = (h.get("violation") or {}).get("class")
        got = [v for v in r["violations"] if want is None or v["class"] == want]
        if got:
            print("VIOLATION property=%s replay=%s class=%s %s" % (self.mod.PROP, path, got[0]["class"], str(got[0].get("detail"))[:300]))
            sys.exit(1)
        if r["violations"]:
            print("VIOLATION property=%s replay=%s class=%s (different class than recorded)" % (self.mod.PROP, path, r["violations"][0]["class"]))
            sys.exit(1)
        print("OK replay passes")
        sys.exit(0)
