"""Independent reference models (written from the documented definitions, not from the repository's
code): full-matrix DTW with window / penalty / psi / max_step, brute-force subsequence DTW, the
affinity recurrence.  Plain Python floats; tiny inputs only."""
import math

inf = float("inf")


def _pd(a, b, ndim):
    if ndim:
        return sum((x - y) * (x - y) for x, y in zip(a, b))
    return (a - b) * (a - b)


def cost_matrix(s1, s2, window=None, penalty=0.0, psi=(0, 0, 0, 0), max_step=None, ndim=False):
    """Accumulated squared-Euclidean cost matrix D of shape (r+1) x (c+1); D[i+1][j+1] is the optimum
    over admissible partial paths ending in (i, j).  Penalty and max_step are given in distance
    units (they are squared here, as the library documents for the squared inner distance)."""
    r, c = len(s1), len(s2)
    w = window if window else max(r, c)
    pen = (penalty or 0.0) ** 2
    ms = inf if not max_step else max_step ** 2
    p1b, p1e, p2b, p2e = psi
    D = [[inf] * (c + 1) for _ in range(r + 1)]
    for j in range(min(p2b, c) + 1):
        D[0][j] = 0.0
    for i in range(min(p1b, r) + 1):
        D[i][0] = 0.0
    for i in range(r):
        js = max(0, i - max(0, r - c) - w + 1)
        je = min(c, i + max(0, c - r) + w)
        for j in range(js, je):
            d = _pd(s1[i], s2[j], ndim)
            if d > ms:
                continue
            D[i + 1][j + 1] = d + min(D[i][j], D[i][j + 1] + pen, D[i + 1][j] + pen)
    return D


def distance(s1, s2, window=None, penalty=0.0, psi=(0, 0, 0, 0), max_step=None, max_dist=None, ndim=False):
    r, c = len(s1), len(s2)
    D = cost_matrix(s1, s2, window, penalty, psi, max_step, ndim)
    p1b, p1e, p2b, p2e = psi
    best = D[r][c]
    for j in range(max(0, c - p2e), c + 1):
        best = min(best, D[r][j])
    for i in range(max(0, r - p1e), r + 1):
        best = min(best, D[i][c])
    d = math.sqrt(best) if best < inf else inf
    if max_dist is not None and max_dist != inf and d > max_dist:
        return inf
    return d


def subsequence_matching(query, series, penalty=0.0, ndim=False):
    """matching[e] = min over b <= e of penalised DTW(query, series[b..e]) / len(query), by brute force
    over all start points (each with its own full DTW).  Also returns the arg-min start per e."""
    nq, ns = len(query), len(series)
    vals, starts = [], []
    for e in range(ns):
        best, bb = inf, None
        for b in range(e + 1):
            d = distance(query, series[b:e + 1], penalty=penalty, ndim=ndim)
            if d < best:
                best, bb = d, b
        vals.append(best / nq)
        starts.append(bb)
    return vals, starts


def subsequence_matching_free_start(query, series, penalty=0.0, ndim=False):
    """The same quantity by one DP with a free start in the series (row 0 all zero): min over start points of the
    penalised DTW equals the free-start optimum.  Used for inputs too long for the brute-force enumeration; the two
    are cross-checked against each other on every small input."""
    nq, ns = len(query), len(series)
    pen = (penalty or 0.0) ** 2
    prev = [0.0] * (ns + 1)
    for i in range(nq):
        cur = [inf] * (ns + 1)
        for j in range(ns):
            d = _pd(query[i], series[j], ndim)
            cur[j + 1] = d + min(prev[j], prev[j + 1] + pen, cur[j] + pen)
        prev = cur
        if i == 0:
            pass
    return [math.sqrt(v) / nq if v < inf else inf for v in prev[1:]]


def path_cost(query, series, path, penalty=0.0, ndim=False):
    """Accumulated penalised squared cost along an explicit path [(i, j), ...] (no start/end conditions)."""
    pen = (penalty or 0.0) ** 2
    total = 0.0
    prev = None
    for (i, j) in path:
        total += _pd(query[i], series[j], ndim)
        if prev is not None:
            di, dj = i - prev[0], j - prev[1]
            if (di, dj) != (1, 1):
                total += pen
        prev = (i, j)
    return total


def affinity_matrix(s1, s2, gamma, tau, delta, delta_factor, penalty=0.0, window=None, only_triu=False):
    """Affinity warping-paths matrix per the documented recurrence.  Returns A of shape (r+1) x (c+1);
    cells outside the band (or below the diagonal with only_triu) are None."""
    r, c = len(s1), len(s2)
    w = window if window else max(r, c)
    pen = penalty or 0.0
    A = [[None] * (c + 1) for _ in range(r + 1)]
    for j in range(c + 1):
        A[0][j] = 0.0
    for i in range(r + 1):
        A[i][0] = 0.0

    def g(i, j):
        v = A[i][j]
        return 0.0 if v is None else v

    for i in range(r):
        js = max(0, i - max(0, r - c) - w + 1)
        if only_triu:
            js = max(js, i)
        je = min(c, i + max(0, c - r) + w)
        for j in range(js, je):
            d = math.exp(-gamma * (s1[i] - s2[j]) ** 2)
            prev = max(g(i, j), g(i, j + 1) - pen, g(i + 1, j) - pen)
            if d < tau:
                v = max(0.0, delta + delta_factor * prev)
            else:
                v = max(0.0, d + prev)
            A[i + 1][j + 1] = v
    return A
