"""Shared machinery of the deterministic-simulation checks (DESIGN.md §3, §6, §9).

* one integer (VERIF_SEED) -> named, independent PRNG streams (splitmix64 -> random.Random)
* process fan-out with hard timeouts (never hangs, never turns a kill into exit 0)
* digesting of results for bit-exact history comparison
* ddmin-style minimisation over op lists
* evidence writer, known-findings file, exit-code protocol
"""
import concurrent.futures as cf
import faulthandler
import hashlib
import json
import math
import multiprocessing as mp
import os
import struct
import sys
import time
import traceback

VERIF = os.path.dirname(os.path.dirname(os.path.abspath(__file__)))
EVIDENCE_DIR = os.environ.get("VERIF_EVIDENCE_DIR") or os.path.join(VERIF, "evidence")
REPLAY_DIR = os.environ.get("VERIF_REPLAY_DIR") or os.path.join(VERIF, "replays")
KNOWN_FINDINGS = os.path.join(VERIF, "known_findings.json")
DEFAULT_SEED = 20260928
NPROC = int(os.environ.get("VERIF_NPROC", "16"))

MASK = (1 << 64) - 1


def splitmix64(x):
    x = (x + 0x9E3779B97F4A7C15) & MASK
    z = x
    z = ((z ^ (z >> 30)) * 0xBF58476D1CE4E5B9) & MASK
    z = ((z ^ (z >> 27)) * 0x94D049BB133111EB) & MASK
    return x, z ^ (z >> 31)


def derive(seed, *names):
    """Derive an independent 64-bit value from seed and a path of names/ints."""
    h = hashlib.blake2b(digest_size=8)
    h.update(struct.pack("<Q", seed & MASK))
    for n in names:
        h.update(b"/")
        h.update(str(n).encode())
    return int.from_bytes(h.digest(), "little")


class Rng:
    """Small explicit PRNG (splitmix64).  random.Random is avoided on purpose: its algorithms for
    choice/sample/shuffle are allowed to change between Python versions; this one cannot."""

    def __init__(self, seed):
        self.s = seed & MASK

    def u64(self):
        self.s, z = splitmix64(self.s)
        return z

    def below(self, n):
        return self.u64() % n if n > 0 else 0

    def randint(self, a, b):
        return a + self.below(b - a + 1)

    def random(self):
        return (self.u64() >> 11) / 9007199254740992.0

    def chance(self, p):
        return self.random() < p

    def choice(self, seq):
        return seq[self.below(len(seq))]

    def shuffle(self, lst):
        for i in range(len(lst) - 1, 0, -1):
            j = self.below(i + 1)
            lst[i], lst[j] = lst[j], lst[i]

    def sample(self, seq, k):
        lst = list(seq)
        self.shuffle(lst)
        return lst[:k]

    def uniform(self, a, b):
        return a + (b - a) * self.random()


class Streams:
    """Named independent streams: adding a draw in one component never shifts another's choices."""

    def __init__(self, seed):
        self.seed = seed & MASK
        self._cache = {}

    def __call__(self, *names):
        key = tuple(names)
        r = self._cache.get(key)
        if r is None:
            r = self._cache[key] = Rng(derive(self.seed, *names))
        return r


def get_seed():
    v = os.environ.get("VERIF_SEED")
    if v is None or v == "":
        return DEFAULT_SEED
    try:
        return int(v)
    except ValueError:
        return derive(0, v)


# ----------------------------------------------------------------------------------------------
# digests

def fbits(x):
    return struct.pack("<d", float(x)).hex()


def digest_value(v):
    """Canonical, exact (float-bit) description of a result value; used for history comparison."""
    import array as _array
    try:
        import numpy as np
    except ImportError:  # pragma: no cover
        np = None
    if v is None or isinstance(v, (bool, int, str)):
        return v
    if isinstance(v, float):
        return "f:" + fbits(v)
    if np is not None:
        if isinstance(v, np.ma.MaskedArray):
            return ["ma", list(v.shape), digest_value(np.ma.getdata(v)), digest_value(np.ma.getmaskarray(v).astype(np.int8))]
        if isinstance(v, np.ndarray):
            a = np.ascontiguousarray(v)
            return ["nd", list(a.shape), str(a.dtype), hashlib.blake2b(a.tobytes(), digest_size=12).hexdigest()]
        if isinstance(v, np.generic):
            return digest_value(v.item())
    if isinstance(v, _array.array):
        return ["arr", v.typecode, len(v), hashlib.blake2b(v.tobytes(), digest_size=12).hexdigest()]
    if isinstance(v, (list, tuple)):
        return [digest_value(x) for x in v]
    if isinstance(v, (set, frozenset)):
        return ["set"] + sorted((digest_value(x) for x in v), key=repr)
    if isinstance(v, dict):
        return {str(k): digest_value(x) for k, x in sorted(v.items(), key=lambda kv: repr(kv[0]))}
    if isinstance(v, BaseException):
        return ["exc", type(v).__name__]
    return ["obj", type(v).__name__]


def hash_obj(o):
    return hashlib.blake2b(json.dumps(o, sort_keys=True, default=str).encode(), digest_size=8).hexdigest()


# ----------------------------------------------------------------------------------------------
# fan-out

class HarnessError(Exception):
    pass


def _worker_entry(fn, args, wall):
    faulthandler.enable()
    if wall:
        faulthandler.dump_traceback_later(wall, exit=True)
    try:
        return ("ok", fn(*args))
    except BaseException as exc:  # noqa
        return ("err", "".join(traceback.format_exception(type(exc), exc, exc.__traceback__)))
    finally:
        if wall:
            faulthandler.cancel_dump_traceback_later()


def fanout(fn, tasks, nproc=None, task_wall=600, total_wall=None, stop_when=None):
    """Run fn(*task) for every task in a pool of forked workers.  Yields (task, result) in task
    order.  A worker exception, a dead worker or a timeout raises HarnessError (exit 2) —
    never a silent pass.  `stop_when(result)` true => remaining tasks are cancelled."""
    nproc = nproc or NPROC
    results = {}
    t0 = time.time()
    ctx = mp.get_context("fork")
    with cf.ProcessPoolExecutor(max_workers=min(nproc, max(1, len(tasks))), mp_context=ctx) as ex:
        futs = {ex.submit(_worker_entry, fn, t, task_wall): i for i, t in enumerate(tasks)}
        stopped = False
        try:
            for fut in cf.as_completed(futs, timeout=total_wall):
                i = futs[fut]
                try:
                    status, val = fut.result()
                except cf.process.BrokenProcessPool as exc:
                    raise HarnessError("worker process died: %r" % (exc,))
                except cf.CancelledError:
                    continue
                if status == "err":
                    raise HarnessError("exception in worker:\n" + val)
                results[i] = val
                if stop_when is not None and not stopped and stop_when(val):
                    stopped = True
                    for f in futs:
                        f.cancel()
        except cf.TimeoutError:
            for f in futs:
                f.cancel()
            raise HarnessError("fan-out exceeded its wall-clock limit of %s s" % total_wall)
    return [(tasks[i], results[i]) for i in sorted(results)], time.time() - t0


def fanout_isolated(modname, funcname, tasks, nproc=None, task_wall=1800, stop_when=None, env=None):
    """Like fanout, but every task runs in its own fresh interpreter (subprocess), so that code under
    test which crashes the process (heap corruption in a broken C routine) takes down one task only.
    A task that dies yields {"crashed": returncode, "stderr": tail}.  Results in task order."""
    import pickle
    import subprocess
    import tempfile
    import threading
    nproc = nproc or NPROC
    main_py = os.path.join(VERIF, "sim", "main.py")
    results = {}
    stop = threading.Event()
    tmpdir = tempfile.mkdtemp(prefix="verif-iso-", dir=os.path.join(VERIF, ".cache") if os.path.isdir(os.path.join(VERIF, ".cache")) else None)
    t0 = time.time()

    def run_one(i):
        if stop.is_set():
            return
        out = os.path.join(tmpdir, "r%d.pkl" % i)
        argf = os.path.join(tmpdir, "a%d.pkl" % i)
        with open(argf, "wb") as f:
            pickle.dump(tasks[i], f)
        try:
            # glibc overwrites every freed block with this byte and every fresh block with its complement: reads of freed or
            # uninitialised heap memory in the code under test then give the same junk in every process instead of
            # whatever the block held before - such defects become visible AND replayable
            cenv = dict(os.environ)
            cenv.setdefault("MALLOC_PERTURB_", "165")
            # ... and CPython's own small-object allocator is switched off in the workers, so that buffers the extension modules
            # take from PyMem / PyObject_Malloc (Cython arrays, small scratch matrices) go through glibc as well
            cenv.setdefault("PYTHONMALLOC", "malloc")
            if env:
                cenv.update(env)
            p = subprocess.run([sys.executable, "-u", main_py, "--worker", modname, funcname, argf, out],
                               stdout=subprocess.PIPE, stderr=subprocess.STDOUT, timeout=task_wall, env=cenv)
            rc, tail = p.returncode, p.stdout.decode(errors="replace")[-3000:]
        except subprocess.TimeoutExpired:
            rc, tail = -999, "task wall-clock limit (%s s) exceeded" % task_wall
        if rc == 0 and os.path.exists(out):
            with open(out, "rb") as f:
                results[i] = pickle.load(f)
        else:
            results[i] = {"crashed": rc, "stderr": tail}
        for fn in (out, argf):
            try:
                os.remove(fn)
            except OSError:
                pass
        if stop_when is not None and stop_when(results[i]):
            stop.set()

    try:
        with cf.ThreadPoolExecutor(max_workers=min(nproc, max(1, len(tasks)))) as ex:
            list(ex.map(run_one, range(len(tasks))))
    finally:
        import shutil
        shutil.rmtree(tmpdir, ignore_errors=True)
    return [(tasks[i], results[i]) for i in sorted(results)], time.time() - t0


def worker_main(argv):
    """Entry of an isolated worker: main.py --worker <module> <function> <argfile> <outfile>."""
    import importlib
    import pickle
    modname, funcname, argf, out = argv
    faulthandler.enable()
    with open(argf, "rb") as f:
        args = pickle.load(f)
    mod = importlib.import_module(modname)
    res = getattr(mod, funcname)(*args)
    with open(out + ".tmp", "wb") as f:
        pickle.dump(res, f)
    os.replace(out + ".tmp", out)


# ----------------------------------------------------------------------------------------------
# minimisation

def ddmin(items, test, max_tests=400):
    """Classic ddmin over a list.  test(sublist) -> True iff the failure persists."""
    n = 2
    items = list(items)
    tests = 0
    while len(items) >= 2 and tests < max_tests:
        chunk = max(1, len(items) // n)
        subsets = [items[i:i + chunk] for i in range(0, len(items), chunk)]
        reduced = False
        for i in range(len(subsets)):
            comp = [x for j, s in enumerate(subsets) if j != i for x in s]
            tests += 1
            if comp and test(comp):
                items = comp
                n = max(n - 1, 2)
                reduced = True
                break
            if tests >= max_tests:
                break
        if not reduced:
            if n >= len(items):
                break
            n = min(len(items), n * 2)
    # final single-element sweep
    i = 0
    while i < len(items) and tests < max_tests and len(items) > 1:
        comp = items[:i] + items[i + 1:]
        tests += 1
        if test(comp):
            items = comp
        else:
            i += 1
    return items


# ----------------------------------------------------------------------------------------------
# known findings

def load_known_findings(prop):
    try:
        with open(KNOWN_FINDINGS) as f:
            data = json.load(f)
    except FileNotFoundError:
        return []
    return [e for e in data.get("findings", []) if e.get("property") == prop and e.get("status") == "known"]


def match_known(findings, signature):
    for e in findings:
        if e.get("signature") == signature:
            return e
    return None


# ----------------------------------------------------------------------------------------------
# evidence + exit protocol

def write_evidence(prop, tier, seed, coverage, wall_s, violations, assumptions, extra=None):
    os.makedirs(EVIDENCE_DIR, exist_ok=True)
    ev = {
        "property_id": prop,
        "tier": tier,
        "seed": int(seed),
        "level": "exploration",
        "coverage": coverage,
        "assumptions": assumptions,
        "wall_s": round(float(wall_s), 3),
        "violations": int(violations),
    }
    if extra:
        ev.update(extra)
    path = os.path.join(EVIDENCE_DIR, prop + ".json")
    tmp = path + ".tmp%d" % os.getpid()
    with open(tmp, "w") as f:
        json.dump(ev, f, indent=1, sort_keys=True, default=str)
        f.write("\n")
    os.replace(tmp, path)
    return path


def save_replay(prop, name, obj):
    os.makedirs(REPLAY_DIR, exist_ok=True)
    path = os.path.join(REPLAY_DIR, "%s-%s.json" % (prop, name))
    with open(path, "w") as f:
        json.dump(obj, f, indent=1, sort_keys=True, default=str)
        f.write("\n")
    return path


def report_and_exit(prop, new_violations, known_hits, harness_errors=None):
    """new_violations: list of replay paths; known_hits: list of (entry) matched."""
    seen = set()
    for e in known_hits:
        if e["id"] in seen:
            continue
        seen.add(e["id"])
        print("KNOWN-FINDING: property=%s %s" % (prop, e["text"]))
    if harness_errors:
        for h in harness_errors:
            print("HARNESS-ERROR: %s" % h)
        sys.stdout.flush()
        sys.exit(2)
    if new_violations:
        for p in new_violations:
            print("VIOLATION property=%s replay=%s" % (prop, p))
        sys.stdout.flush()
        sys.exit(1)
    print("OK property=%s" % prop)
    sys.stdout.flush()
    sys.exit(0)


def finite(x):
    return not (math.isinf(x) or math.isnan(x))
