"""C20 — calls are pure: inputs untouched, container- and history-independent (DESIGN.md §4, C20).

Client sessions issue the public routines against a SHARED pool of resources: the same series held
simultaneously as list, tuple, array.array, contiguous ndarray, strided / negative-stride views, rows
and columns of 2-D arrays; containers (lists of those, 2-D arrays, SeriesContainer wrappers created
once); option dicts reused across calls and objects; long-lived SubsequenceSearch /
SubsequenceAlignment / LocalConcurrences / Hierarchical / KMeans objects built on those resources.
After EVERY op:
  * every pooled resource is byte-identical to its pristine snapshot (for views: the whole base array);
  * the result equals the result of the same call issued alone in a fresh context built from the
    same setup in the same representations (history independence; exact, exceptions included);
  * if the call returned, it equals the same call on canonical contiguous copies (container
    independence); a call that raises for a container kind it does not accept is a permitted outcome.
"""
import array
import copy
import json
import math
import os

from .. import core, sessions

PROP = "C20"
TIERS = {"quick": 12000, "thorough": 600000}
BATCH = 100
OP_WALL = 60
NO_MINIMISE = {"hang"}
RULE = ("one evaluation = one generated history (2-3 client sessions, up to 30 ops over a shared pool of series in 8 representations (13 for integer-valued histories: + int list, int64, float32, array 'l' / 'f'), shared containers, "
        "shared option dicts and long-lived model objects; ops: distance(_fast), warping_paths(_fast), warping_path(_fast), best_path, warp, lb_keogh, "
        "ub_euclidean, ed.distance(_fast), the same routines on caller buffers refilled in place between calls, distance_matrix (serial, blocks, compact), dtw_ndim twins, dba_loop (Python, C), SubsequenceSearch, "
        "SubsequenceAlignment, LocalConcurrences, Hierarchical, KMeans). Distinct = distinct (op kind, session) sequences; non-trivial = at least two "
        "sessions alternate at least twice.")
COMPONENTS = {"real": ["dtw.py, dtw_ndim.py, ed.py, dtw_barycenter.py, util.py (SeriesContainer), util_numpy.py", "dtw_cc / ed_cc (C engine)",
                       "subsequence/*.py, clustering/hierarchical.py, clustering/kmeans.py (as long-lived objects on the shared pool)"],
              "stub": ["client sessions and their interleaving (seeded scheduler)", "twins: the same call in a fresh context (same representations) and on canonical contiguous copies"]}
ASSUMPTIONS = ["one history in four holds integer-valued series and then also uses integer / float32 containers of the same numbers (lists of ints, int64 and float32 ndarrays, array.array 'l' and 'f'); float32 kinds are compared with rel. tol 1e-5 and are never handed to long-lived model objects",
               "bounds: mostly 3..6 series of length 2..8 (one history in 12: 7..12 series of length 9..24; one in ~40: 3..6 series of 130..190 samples, C engine only), 2..3 bivariate series, histories <= 30 ops",
               "container independence is compared with rel. tol 1e-9 (Python 3.12 sums Python floats with compensation but NumPy scalars without: list and ndarray inputs differ in the last bit); history independence is compared bit for bit",
               "multi-iteration Python-engine averaging (dba_loop with max_it > 1, KMeans with use_c=False) can amplify that last bit through a tie between warping paths: for those ops the canonical twin keeps the scalar class of the items (plain lists for list / array.array items, contiguous ndarrays otherwise)", "a call that RAISES for a container kind it does not accept (plain lists handed to the C entry points, ...) is permitted if inputs stay untouched and "
               "the fresh same-representation twin raises the same way; a call that RETURNS must return the canonical value",
               "psi is kept within every series (wider is outside what the library accepts: the Python engine raises, the C warping-paths kernels abort the process), independent of the window",
               "KMeans is seeded through the public generators; parallel=False everywhere (parallel routes are C07 / C16)"]

REPS = ["list", "tuple", "array", "nd", "strided", "neg", "col", "row", "ovl"]
INT_REPS = ["intlist", "i64", "arr_l", "f32", "arr_f"]      # integer-valued histories only; float32 kinds last (never handed to model objects)
F32_TOL = 1e-5       # a float32 container computes in float32 where the Python engine lets NumPy do the arithmetic: that rounding is the caller's choice
NREPS = ["nd", "lists", "fortran", "strided"]
PAIR_FNS = ["distance", "distance", "distance_fast", "lb_keogh", "ub_euclidean", "ed_distance", "ed_distance_fast", "warping_paths", "warping_paths_fast",
            "warping_path", "warping_path_fast", "warp", "best_path"]
NPAIR_FNS = ["ndistance", "ndistance_fast", "nwarping_paths", "nwarping_path", "nub_euclidean"]


def gen_history(st):
    rng = st("workload")
    big = rng.below(12) == 0          # swarm sizing: one history in 12 has more and longer series
    huge = (not big) and rng.below(40) == 0
    # one history in ~40: few series of 130..190 samples, C engine only.  Buffers of >= 1024 bytes bypass NumPy's small-block
    # cache, so memory the library frees really goes back to the allocator (and is overwritten, MALLOC_PERTURB_).
    m = 7 + rng.below(6) if big else 3 + rng.below(4)
    equal = rng.below(2) == 0
    L0 = (130 + rng.below(60)) if huge else (9 + rng.below(16) if big else 2 + rng.below(7))
    # one history in four holds integer-valued series only: the same numbers can then also live in integer and float32
    # containers (lists of Python ints, int64 / float32 ndarrays, array.array('l') / ('f')) without changing their value
    intvals = (not huge) and rng.below(4) == 0
    series = []
    for i in range(m):
        L = L0 if equal else ((130 + rng.below(60)) if huge else (9 + rng.below(16) if big else 2 + rng.below(7)))
        series.append([float(rng.below(5)) if (intvals or rng.below(3)) else round(rng.uniform(-2, 4), 2) for _ in range(L)])
    overlap = None
    if not huge and rng.below(3) == 0 and m >= 2 and not equal:
        # two series that are overlapping windows of ONE underlying array (rep "ovl" hands out views that share memory)
        i0, i1 = rng.sample(list(range(m)), 2)
        if len(series[i0]) >= 3:
            k_ = 1 + rng.below(len(series[i0]) - 2)
            extra = [float(rng.below(5)) for _ in range(rng.below(3))]
            series[i1] = list(series[i0][k_:]) + extra
            overlap = [i0, i1, k_]
    nser = [[[float(rng.below(4)), float(rng.below(3))] for _ in range(2 + rng.below(5))] for _ in range(2 + rng.below(2))]
    minlen = min(len(s) for s in series)
    dicts = []
    for _ in range(1 + rng.below(3)):
        o = {}
        if rng.below(2):
            o["window"] = 1 + rng.below(8)
        if rng.below(3) == 0:
            o["penalty"] = rng.choice([0.1, 0.5, 1.0])
        if rng.below(4) == 0:
            # psi stays within every series (psi == length of a 1-D series allows an empty alignment: a degenerate combination),
            # whatever the window
            p = rng.below(min(minlen - 1, 3, min(len(x) for x in nser)) + 1)
            o["psi"] = p if rng.below(2) else [p, rng.below(p + 1), rng.below(p + 1), p]      # one integer or a 4-element list
        if rng.below(5) == 0:
            o["max_step"] = rng.choice([1.5, 2.5])
        if rng.below(5) == 0:
            o["max_dist"] = rng.choice([2.0, 4.0])
        if rng.below(6) == 0:
            o["inner_dist"] = "euclidean"
        dicts.append(o)
    conts = []
    for _ in range(1 + rng.below(3)):
        k = 2 + rng.below(m - 1)
        idxs = rng.sample(list(range(m)), k)
        kind = rng.choice(["list_nd", "list_array", "list_views", "list_list", "matrix", "sc_list_nd", "sc_list_views"])
        if intvals and rng.below(2):
            kind = rng.choice(["list_i64", "list_intlist", "matrix_i64"])
        if kind in ("matrix", "matrix_i64") and len({len(series[i]) for i in idxs}) != 1:
            kind = "list_views" if kind == "matrix" else "list_i64"
        conts.append({"kind": kind, "idxs": idxs, "reps": [rng.choice(REPS[3:]) for _ in idxs]})
    wp_ = 1 + rng.below(max(len(x) for x in series) + 1)
    setup = {"series": series, "nseries": nser, "dicts": dicts, "conts": conts, "overlap": overlap, "intvals": intvals,
             "wide_psi": [wp_, rng.below(wp_ + 1), rng.below(wp_ + 1), wp_]}

    def ref(f32=True):
        if intvals and rng.below(3) == 0:
            return [rng.below(m), rng.choice(INT_REPS if f32 else INT_REPS[:3])]
        return [rng.below(m), rng.choice(REPS)]

    def odtype():
        return rng.choice([None, None, "f32", "i64"]) if intvals else None

    def nref():
        return [rng.below(len(nser)), rng.choice(NREPS)]

    def dref():
        return rng.below(len(dicts)) if rng.below(4) else None

    nsess = 2 + rng.below(2)
    programs = [[] for _ in range(nsess)]
    objs = 0
    for s in range(nsess):
        for _ in range(3 + rng.below(8)):
            k = rng.below(40)
            if k < 16:
                ra = ref()
                rb_ = list(ra) if rng.below(10) == 0 else ref()       # sometimes the SAME object as both arguments
                programs[s].append({"op": "pair", "fn": rng.choice(PAIR_FNS), "a": ra, "b": rb_, "opts": dref(), "use_c": bool(rng.below(2))})
                if programs[s][-1]["fn"] in ("distance", "distance_fast") and rng.below(6) == 0:
                    # psi given as ONE caller-owned list object, reused by every such call of the history, and possibly wider than
                    # some series (what the library does then - raise, clamp - is its choice; what it must not do is remember it)
                    programs[s][-1]["wide_psi"] = True
            elif k < 18:
                programs[s].append({"op": "npair", "fn": rng.choice(NPAIR_FNS), "a": nref(), "b": nref(), "opts": dref(), "use_c": bool(rng.below(2))})
            elif k < 20:
                # a caller that REFILLS its own two buffers in place between consecutive calls of one routine (streaming use):
                # same objects, same lengths, new numbers each time
                L = rng.choice([len(x) for x in series])
                same = [i for i in range(m) if len(series[i]) == L]
                calls = [[rng.choice(same), rng.choice(same)] for _ in range(2 + rng.below(3))]
                programs[s].append({"op": "refill", "fn": rng.choice(PAIR_FNS), "rep": rng.choice(["list", "array", "nd", "nd"]), "calls": calls,
                                    "opts": dref(), "use_c": bool(rng.below(2))})
            elif k < 25:
                blk = None
                if rng.below(3) == 0:
                    n = len(conts[0]["idxs"])
                    rb = rng.below(n); cb = rng.below(n)
                    blk = [[rb, rb + 1 + rng.below(n - rb)], [cb, cb + 1 + rng.below(n - cb)]]
                programs[s].append({"op": "matrix", "cont": rng.below(len(conts)), "opts": dref(), "use_c": bool(rng.below(2)), "compact": bool(rng.below(2)),
                                    "block": blk, "fast": rng.below(4) == 0, "dtype": odtype()})
            elif k < 28:
                programs[s].append({"op": "dba", "cont": rng.below(len(conts)), "c": ref(), "use_c": bool(rng.below(2)), "max_it": 1 + rng.below(3), "loop": bool(rng.below(2)),
                                    "dtype": odtype()})
            elif k < 30:
                programs[s].append({"op": "new_ss", "obj": objs, "q": ref(False), "cont": rng.below(len(conts)), "dict": dref(), "use_c": rng.choice([None, False, True]),
                                    "use_lb": bool(rng.below(2))}); objs += 1
            elif k < 32:
                programs[s].append({"op": "new_sa", "obj": objs, "q": ref(False), "s": ref(False), "penalty": rng.choice([0.0, 0.1, 1.0]), "use_c": bool(rng.below(2))}); objs += 1
            elif k < 33:
                programs[s].append({"op": "new_lc", "obj": objs, "a": ref(False), "b": ref(False) if rng.below(2) else None, "dict": dref()}); objs += 1
            elif k < 35:
                programs[s].append({"op": "new_hier", "obj": objs, "dict": rng.below(len(dicts)), "use_c": bool(rng.below(2)), "tree": bool(rng.below(2)),
                                    "max_dist": rng.choice(["inf", 2.0, 4.0])}); objs += 1
            elif k < 36:
                programs[s].append({"op": "new_km", "obj": objs, "k": 1 + rng.below(2), "dict": dref(), "use_c": bool(rng.below(2)), "pp": bool(rng.below(2))}); objs += 1
            elif k < 38:
                # concurrent callers: 2-3 threads, each running a short private program (no object is shared between them)
                progs = []
                for _t in range(2 + rng.below(2)):
                    kk = rng.below(10)
                    if kk < 5:
                        progs.append([{"op": "pair", "fn": rng.choice(PAIR_FNS), "a": ref(), "b": ref(), "opts": dref(), "use_c": rng.below(4) == 0}])
                    elif kk < 6:
                        progs.append([{"op": "npair", "fn": rng.choice(NPAIR_FNS), "a": nref(), "b": nref(), "opts": dref(), "use_c": rng.below(4) == 0}])
                    elif kk < 8:
                        progs.append([{"op": "matrix", "cont": rng.below(len(conts)), "opts": dref(), "use_c": rng.below(4) == 0, "compact": bool(rng.below(2)), "block": None, "fast": False}])
                    elif kk < 9:
                        progs.append([{"op": "dba", "cont": rng.below(len(conts)), "c": ref(), "use_c": False, "max_it": 1 + rng.below(2), "loop": bool(rng.below(2))}])
                    else:
                        progs.append([{"op": "new_sa", "obj": 0, "q": ref(), "s": ref(), "penalty": rng.choice([0.0, 0.1]), "use_c": False},
                                      {"op": "use", "obj": 0, "k": rng.choice([1, 2, None]), "cont": 0, "npseed": 1, "pyseed": 1}])
                programs[s].append({"op": "threads", "progs": progs, "tseed": rng.u64(), "one_in": rng.choice([3, 8, 20, 60])})
            else:
                if objs:
                    programs[s].append({"op": "use", "obj": rng.below(objs), "k": rng.choice([1, 2, 3, None]), "cont": rng.below(len(conts)),
                                        "npseed": rng.below(2 ** 31), "pyseed": rng.below(2 ** 31)})
    if huge:
        cfn = {"distance": "distance_fast", "warping_paths": "warping_paths_fast", "warping_path": "warping_path_fast", "ed_distance": "ed_distance_fast",
               "best_path": "warping_paths_fast", "warp": "distance_fast", "ub_euclidean": "ed_distance_fast"}
        for prog in programs:
            keep = []
            for o in prog:
                if o["op"] == "pair":
                    o["fn"] = cfn.get(o["fn"], o["fn"]); o["use_c"] = True
                    keep.append(o)
                elif o["op"] == "matrix":
                    o["use_c"] = True
                    keep.append(o)
                elif o["op"] == "dba":
                    o["use_c"] = True; o["max_it"] = 2
                    keep.append(o)
            prog[:] = keep[:5]
    ops = sessions.interleave(st("sessions"), programs)
    return {"setup": setup, "ops": ops}


# ---------------------------------------------------------------------------------------------- resource pool

JUNK = 7.75


class Pool:
    """All shared resources of one context, materialised from the setup."""

    def __init__(self, setup, canonical=False, float_class=False):
        import numpy as np
        self.np = np
        self.setup = setup
        self.canonical = canonical
        self.float_class = float_class      # canonical twin of a multi-iteration Python-engine op: see _iterative_python()
        self.items = {}
        self.bases = []     # (name, object) whose content must never change
        self.ovl = {}
        ov = setup.get("overlap")
        if ov and not canonical:
            i0, i1, k_ = ov
            s0, s1 = setup["series"][i0], setup["series"][i1]
            base = np.array(list(s0) + list(s1[len(s0) - k_:]), dtype=np.double)
            self.bases.append(("overlap-base", base))
            self.ovl = {i0: base[:len(s0)], i1: base[k_:k_ + len(s1)]}
        for i, v in enumerate(setup["series"]):
            for rep in REPS + (INT_REPS if setup.get("intvals") else []):
                self.items[(i, rep)] = self._make(i, rep, v)
        self.nitems = {}
        for i, v in enumerate(setup["nseries"]):
            for rep in NREPS:
                self.nitems[(i, rep)] = self._nmake(i, rep, v)
        self.dicts = copy.deepcopy(setup["dicts"])
        self.conts = [self._cont(ci, c) for ci, c in enumerate(setup["conts"])]
        self.objs = {}
        self.wide_psi = list(setup.get("wide_psi", [0, 0, 0, 0]))     # the caller's psi list: one object for all calls that use it
        self.scratch = {}        # (rep, length, slot) -> [buffer the caller owns and refills in place, values last written]
        self.snap0 = self.snapshot()

    def _make(self, i, rep, v):
        np = self.np
        if self.canonical:
            a = np.array(v, dtype=np.double)
            self.bases.append(("series%d/%s" % (i, rep), a))
            return a
        if rep == "list":
            o = list(v)
        elif rep == "intlist":
            o = [int(x) for x in v]
        elif rep == "i64":
            o = np.array([int(x) for x in v], dtype=np.int64)
        elif rep == "f32":
            o = np.array(v, dtype=np.float32)
        elif rep == "arr_l":
            o = array.array("l", [int(x) for x in v])
        elif rep == "arr_f":
            o = array.array("f", v)
        elif rep == "tuple":
            o = tuple(v)
        elif rep == "array":
            o = array.array("d", v)
        elif rep == "nd":
            o = np.array(v, dtype=np.double)
        elif rep == "strided":
            base = np.full(2 * len(v), JUNK)
            base[::2] = v
            self.bases.append(("series%d/strided-base" % i, base))
            return base[::2]
        elif rep == "neg":
            base = np.array(v[::-1], dtype=np.double)
            self.bases.append(("series%d/neg-base" % i, base))
            return base[::-1]
        elif rep == "ovl":
            if i in self.ovl:
                return self.ovl[i]
            o = np.array(v, dtype=np.double)
        elif rep == "col":
            base = np.full((len(v), 3), JUNK)
            base[:, 1] = v
            self.bases.append(("series%d/col-base" % i, base))
            return base[:, 1]
        else:
            base = np.full((3, len(v)), JUNK)
            base[1, :] = v
            self.bases.append(("series%d/row-base" % i, base))
            return base[1]
        self.bases.append(("series%d/%s" % (i, rep), o))
        return o

    def _nmake(self, i, rep, v):
        np = self.np
        if self.canonical or rep == "nd":
            o = np.array(v, dtype=np.double)
        elif rep == "lists":
            o = [list(p) for p in v]
        elif rep == "fortran":
            o = np.asfortranarray(np.array(v, dtype=np.double))
        else:
            base = np.full((2 * len(v), 2), JUNK)
            base[::2] = v
            self.bases.append(("nseries%d/strided-base" % i, base))
            return base[::2]
        self.bases.append(("nseries%d/%s" % (i, rep), o))
        return o

    def _cont(self, ci, c):
        np = self.np
        from dtaidistance.util import SeriesContainer
        kind = c["kind"]
        if self.canonical:
            if self.float_class and kind in ("list_list", "list_array", "list_intlist"):
                kind = "list_list"
            else:
                kind = "sc_list_nd" if kind.startswith("sc_") else "list_nd"
        if kind in ("list_nd", "sc_list_nd"):
            o = [np.array(self.setup["series"][i], dtype=np.double) for i in c["idxs"]]
        elif kind == "list_array":
            o = [array.array("d", self.setup["series"][i]) for i in c["idxs"]]
        elif kind in ("list_views", "sc_list_views"):
            o = [self.items[(i, r)] for i, r in zip(c["idxs"], c["reps"])]       # aliases the pooled views
        elif kind == "list_list":
            o = [list(self.setup["series"][i]) for i in c["idxs"]]
        elif kind == "list_i64":
            o = [np.array([int(x) for x in self.setup["series"][i]], dtype=np.int64) for i in c["idxs"]]
        elif kind == "list_intlist":
            o = [[int(x) for x in self.setup["series"][i]] for i in c["idxs"]]
        elif kind == "matrix_i64":
            o = np.array([[int(x) for x in self.setup["series"][i]] for i in c["idxs"]], dtype=np.int64)
        else:
            o = np.array([self.setup["series"][i] for i in c["idxs"]], dtype=np.double)
        self.bases.append(("container%d/%s" % (ci, kind), o))
        if kind.startswith("sc_"):
            return SeriesContainer.wrap(o)
        return o

    def typed(self, ci, dtype):
        """A list of float32 / int64 arrays holding the series of container ci, made for one call (integer-valued histories)."""
        np = self.np
        idxs = self.setup["conts"][ci]["idxs"]
        if self.canonical:
            return [np.array(self.setup["series"][i], dtype=np.double) for i in idxs]
        if dtype == "f32":
            return [np.array(self.setup["series"][i], dtype=np.float32) for i in idxs]
        return [np.array([int(x) for x in self.setup["series"][i]], dtype=np.int64) for i in idxs]

    def refill(self, i, rep, slot):
        """The caller's scratch buffer for series of this length, refilled IN PLACE with series i (same object every time)."""
        np = self.np
        v = self.setup["series"][i]
        if self.canonical or rep not in ("list", "array", "nd"):
            rep = "nd"
        key = (rep, len(v), slot)
        ent = self.scratch.get(key)
        if ent is None:
            o = list(v) if rep == "list" else (array.array("d", v) if rep == "array" else np.array(v, dtype=np.double))
            ent = self.scratch[key] = [o, None]
        else:
            o = ent[0]
            o[:] = array.array("d", v) if rep == "array" else v
        ent[1] = [float(x) for x in v]
        return o

    def snapshot(self):
        np = self.np
        out = []
        for name, o in self.bases:
            if isinstance(o, np.ndarray):
                out.append((name, o.shape, o.tobytes()))
            elif isinstance(o, array.array):
                out.append((name, len(o), o.tobytes()))
            elif isinstance(o, (list, tuple)):
                # identity of the items too: a routine that swaps the caller's views for detached copies leaves the
                # values equal but has modified the container it was given
                out.append((name + "/item-identities", len(o), tuple(id(x) for x in o) if name.startswith("container") else None))
                out.append((name, len(o), json.dumps([x.tolist() if isinstance(x, np.ndarray) else (list(x) if isinstance(x, (array.array, tuple)) else x) for x in o])))
            else:
                out.append((name, None, repr(o)))
        return out

    def changed(self):
        now = self.snapshot()
        for a, b in zip(self.snap0, now):
            if a != b:
                return a[0]
        for key, (o, want) in self.scratch.items():
            if want is not None and [float(x) for x in o] != want:
                return "caller buffer %s/len%d/slot%d" % key
        return None


# ---------------------------------------------------------------------------------------------- op execution

def _opts(pool, di, use_c=None):
    o = pool.dicts[di] if di is not None and di < len(pool.dicts) else {}
    return o


_RAW = {"last": None}


def _norm(x):
    """Records the raw returned object (for the result-stability / aliasing oracles) and returns its plain form."""
    _RAW["last"] = x
    return _norm_plain(x)


def _norm_plain(x):
    """Plain nested structure (lists / floats / ints / strings) of a result, so that results can be compared exactly
    (history twin) or with a rounding-level tolerance (canonical twin)."""
    import numpy as np
    if isinstance(x, np.ma.MaskedArray):
        return ["ma", _norm_plain(np.ma.getdata(x)), _norm_plain(np.ma.getmaskarray(x).astype(int))]
    if isinstance(x, np.ndarray):
        return ["nd", list(x.shape), x.astype(float).ravel().tolist() if x.dtype != object else [repr(v) for v in x.ravel()]]
    if isinstance(x, np.generic):
        return _norm_plain(x.item())
    if isinstance(x, array.array):
        return ["nd", [len(x)], [float(v) for v in x]]
    if isinstance(x, (list, tuple)):
        return [_norm_plain(v) for v in x]
    if isinstance(x, dict):
        return {str(k): _norm_plain(v) for k, v in sorted(x.items(), key=lambda kv: repr(kv[0]))}
    if isinstance(x, bool) or x is None or isinstance(x, (int, str)):
        return x
    if isinstance(x, float):
        return x
    return repr(type(x))


def same_exact(a, b):
    if isinstance(a, float) and isinstance(b, float):
        return core.fbits(a) == core.fbits(b) or (math.isnan(a) and math.isnan(b))
    if isinstance(a, list) and isinstance(b, list):
        return len(a) == len(b) and all(same_exact(x, y) for x, y in zip(a, b))
    if isinstance(a, dict) and isinstance(b, dict):
        return a.keys() == b.keys() and all(same_exact(a[k], b[k]) for k in a)
    return type(a) == type(b) and a == b


def same_tol(a, b, tol=1e-9):
    if isinstance(a, (int, float)) and isinstance(b, (int, float)) and not isinstance(a, bool) and not isinstance(b, bool):
        a, b = float(a), float(b)
        if math.isnan(a) or math.isnan(b):
            return math.isnan(a) and math.isnan(b)
        if math.isinf(a) or math.isinf(b):
            return a == b
        return abs(a - b) <= tol * max(1.0, abs(a), abs(b))
    if isinstance(a, list) and isinstance(b, list):
        return len(a) == len(b) and all(same_tol(x, y, tol) for x, y in zip(a, b))
    if isinstance(a, dict) and isinstance(b, dict):
        return a.keys() == b.keys() and all(same_tol(a[k], b[k], tol) for k in a)
    return type(a) == type(b) and a == b


def _pair_call(fn, a, b, o, uc):
    """One two-series routine; result in plain form (exceptions propagate to run_op)."""
    from dtaidistance import dtw, ed
    if fn == "distance":
        return _norm(dtw.distance(a, b, use_c=uc, **o))
    if fn == "distance_fast":
        return _norm(dtw.distance_fast(a, b, **o))
    if fn == "lb_keogh":
        oo = {k: v for k, v in o.items() if k in ("window", "max_dist", "max_step", "inner_dist")}
        return _norm(dtw.lb_keogh(a, b, use_c=uc, **oo))
    if fn == "ub_euclidean":
        return _norm(dtw.ub_euclidean(a, b))
    if fn == "ed_distance":
        return _norm(ed.distance(a, b))
    if fn == "ed_distance_fast":
        return _norm(ed.distance_fast(a, b))
    if fn == "warping_paths":
        d, p = dtw.warping_paths(a, b, use_c=uc, **o)
        return _norm([d, p])
    if fn == "warping_paths_fast":
        d, p = dtw.warping_paths_fast(a, b, **o)
        return _norm([d, p])
    oo = {k: v for k, v in o.items() if k not in ("max_dist",)}
    if fn == "warping_path":
        return _norm([list(map(int, t)) for t in dtw.warping_path(a, b, use_c=uc, **oo)])
    if fn == "warping_path_fast":
        return _norm([list(map(int, t)) for t in dtw.warping_path_fast(a, b, **oo)])
    if fn == "warp":
        w, path = dtw.warp(a, b, use_c=uc, **oo)
        return _norm([list(map(float, w)), [list(map(int, t)) for t in path]])
    if fn == "best_path":
        d, p = dtw.warping_paths(a, b, use_c=uc, **oo)
        return _norm([list(map(int, t)) for t in dtw.best_path(p)])
    raise ValueError("unknown pair routine %r" % (fn,))


def run_op(pool, op, alone):
    """Execute one op in the given context.  Returns a JSON-able result description; raises nothing."""
    from dtaidistance import dtw, dtw_ndim, ed, dtw_barycenter
    import numpy as np
    kind = op["op"]
    try:
        if kind == "refill":
            fn, uc = op["fn"], op["use_c"]
            out = []
            twins = []
            for (ia, ib) in op["calls"]:
                # in a twin context every call gets a context of its own, and all of them stay alive until the op is over:
                # no two twin calls ever see the same object (or a recycled address)
                ctx = pool if alone is None else Pool(pool.setup, canonical=pool.canonical)
                twins.append(ctx)
                a = ctx.refill(ia, op["rep"], 0)
                b = ctx.refill(ib, op["rep"], 1)
                out.append(_pair_call(fn, a, b, _opts(ctx, op["opts"]), uc))
                if alone is None and ctx.changed() is not None:
                    break
            return out
        if kind == "pair":
            a = pool.items[tuple(op["a"])]
            b = pool.items[tuple(op["b"])]
            o = _opts(pool, op["opts"])
            if op.get("wide_psi"):
                o = dict(o, psi=pool.wide_psi)
            return _pair_call(op["fn"], a, b, o, op["use_c"])
        if kind == "npair":
            a = pool.nitems[tuple(op["a"])]
            b = pool.nitems[tuple(op["b"])]
            o = {k: v for k, v in _opts(pool, op["opts"]).items()}
            fn = op["fn"]
            uc = op["use_c"]
            if fn == "ndistance":
                return _norm(dtw_ndim.distance(a, b, use_c=uc, **o))
            if fn == "ndistance_fast":
                return _norm(dtw_ndim.distance_fast(a, b, **o))
            if fn == "nwarping_paths":
                d, p = dtw_ndim.warping_paths(a, b, use_c=uc, **o)
                return _norm([d, p])
            if fn == "nwarping_path":
                oo = {k: v for k, v in o.items() if k != "max_dist"}
                return _norm([list(map(int, t)) for t in dtw_ndim.warping_path(a, b, **oo)])
            if fn == "nub_euclidean":
                return _norm(dtw_ndim.ub_euclidean(a, b))
        if kind == "matrix":
            c = pool.conts[op["cont"]] if not op.get("dtype") else pool.typed(op["cont"], op["dtype"])
            o = _opts(pool, op["opts"])
            blk = op["block"]
            n = len(c)
            if blk is not None:
                if blk[0][1] > n or blk[1][1] > n:
                    blk = None
                else:
                    blk = (tuple(blk[0]), tuple(blk[1]))
            if op.get("fast"):
                r = dtw.distance_matrix_fast(c, block=blk, compact=op["compact"], parallel=False, **{k: v for k, v in o.items()})
            else:
                r = dtw.distance_matrix(c, block=blk, compact=op["compact"], parallel=False, use_c=op["use_c"], **o)
            return _norm(np.array(r, dtype=np.double) if not isinstance(r, np.ndarray) else r)
        if kind == "dba":
            c = pool.conts[op["cont"]] if not op.get("dtype") else pool.typed(op["cont"], op["dtype"])
            init = pool.items[tuple(op["c"])]
            if op["loop"]:
                r = dtw_barycenter.dba_loop(c, c=init, max_it=op["max_it"], thr=0.0001, use_c=op["use_c"])
            else:
                r = dtw_barycenter.dba(c, init, use_c=op["use_c"])
            return _norm(r if isinstance(r, np.ndarray) else np.array(r, dtype=np.double))
        if kind == "new_ss":
            from dtaidistance.subsequence.subsequencesearch import SubsequenceSearch
            d = pool.dicts[op["dict"]] if op["dict"] is not None and op["dict"] < len(pool.dicts) else None
            # the caller hands its own (shared) options dict to the search object
            pool.objs[op["obj"]] = ("ss", SubsequenceSearch(pool.items[tuple(op["q"])], pool.conts[op["cont"]], dists_options=d,
                                                            use_lb=op["use_lb"], use_c=op["use_c"]))
            return "created"
        if kind == "new_sa":
            from dtaidistance.subsequence.subsequencealignment import SubsequenceAlignment
            pool.objs[op["obj"]] = ("sa", SubsequenceAlignment(pool.items[tuple(op["q"])], pool.items[tuple(op["s"])], penalty=op["penalty"], use_c=op["use_c"]))
            return "created"
        if kind == "new_lc":
            from dtaidistance.subsequence.localconcurrences import LocalConcurrences
            o = _opts(pool, op["dict"])
            b = None if op["b"] is None else pool.items[tuple(op["b"])]
            pool.objs[op["obj"]] = ("lc", LocalConcurrences(pool.items[tuple(op["a"])], b, gamma=1, tau=0.5, delta=-1, delta_factor=0.5,
                                                            penalty=o.get("penalty"), window=o.get("window")))
            return "created"
        if kind == "new_hier":
            from dtaidistance.clustering import hierarchical as H
            d = pool.dicts[op["dict"]] if op["dict"] < len(pool.dicts) else {}
            fn = dtw.distance_matrix_func(use_c=op["use_c"], parallel=False, show_progress=False)
            md = math.inf if op["max_dist"] == "inf" else op["max_dist"]
            if op["tree"]:
                pool.objs[op["obj"]] = ("hier", H.HierarchicalTree(dists_fun=fn, dists_options=d, show_progress=False))
            else:
                pool.objs[op["obj"]] = ("hier", H.Hierarchical(fn, d, max_dist=md, show_progress=False))
            return "created"
        if kind == "new_km":
            from dtaidistance.clustering.kmeans import KMeans
            o = dict(_opts(pool, op["dict"]))
            o = {k: v for k, v in o.items() if k in ("window", "penalty")}
            o["use_c"] = op["use_c"]
            pool.objs[op["obj"]] = ("km", KMeans(k=op["k"], max_it=2, max_dba_it=2, dists_options=o, show_progress=False,
                                                 initialize_with_kmeanspp=op.get("pp", True)))
            return "created"
        if kind == "use":
            ent = pool.objs.get(op["obj"])
            if ent is None:
                return "no-object"
            typ, obj = ent
            if typ == "ss":
                v = obj.kbest_matches(k=op["k"])
                # which of several equally distant candidates is named may legitimately depend on k and on the cache
                # (C14: "indices equal up to ties"): the history twin compares the distances
                return _norm([float(m.distance) for m in v])
            if typ == "sa":
                return _norm([[int(m.idx), float(m.value), [int(x) for x in m.segment]] for m in obj.kbest_matches(k=op["k"])])
            if typ == "lc":
                ms = obj.kbest_matches_store(k=op["k"], minlen=2, buffer=0, restart=True, keep=False)
                return _norm([[list(map(int, t)) for t in m.path] for m in ms])
            if typ == "hier":
                r = obj.fit(pool.conts[op["cont"]])
                return _norm({int(k): sorted(int(x) for x in v) for k, v in r.items()})
            if typ == "km":
                import random
                np.random.seed(op["npseed"])
                random.seed(op["pyseed"])
                cont = pool.conts[op["cont"]]
                if len(cont) <= obj.k:
                    return "too-few-series"
                r, it = obj.fit(cont, use_parallel=False)
                return _norm([{int(k): sorted(int(x) for x in v) for k, v in r.items()}, int(it), [np.asarray(mm, dtype=np.double) for mm in obj.means]])
        return "unknown-op"
    except sessions.OpTimeout:
        raise
    except Exception as exc:  # noqa
        if type(exc).__name__ == "ThreadSimError":
            raise            # a failure of the simulator itself is never a result of the code under test
        return ["exc", type(exc).__name__]


def _f32(op):
    return op.get("dtype") == "f32" or any(isinstance(op.get(k), list) and len(op[k]) == 2 and op[k][1] in ("f32", "arr_f") for k in ("a", "b", "c"))


def _iterative_python(op, creators):
    """True for ops that iterate a Python-engine average (dtw_barycenter.dba: `sum(values) / len(values)`) more than once.
    CPython >= 3.12 sums exact Python floats with compensation but NumPy scalars without, so the first average already differs
    in the last bit between a list-of-lists and a list-of-ndarrays container; from the second iteration on that bit can flip a
    tie between warping paths and the results part ways visibly (found by the thorough tier: selftest/false_alarms/).  That
    is the interpreter's arithmetic, not the library's use of the container, and no tolerance covers it.  For these ops the
    canonical twin keeps the scalar class of the container items (plain lists for list / array.array items, contiguous
    ndarrays for everything else); single-step ops keep the ndarray canonical form and the 1e-9 tolerance."""
    if op["op"] == "dba":
        return (not op["use_c"]) and op["loop"] and op["max_it"] > 1
    if op["op"] == "use":
        cr = creators.get(op["obj"])
        return bool(cr) and cr["op"] == "new_km" and not cr["use_c"]
    return False


def run_threads(setup, op, bump, obs, opi):
    """Concurrent callers on PRIVATE objects: every thread gets its own freshly materialised pool, so nothing is shared
    except the library itself.  Each thread's results must equal those of the same program run alone."""
    import dtaidistance
    from .. import threadsim
    progs = op["progs"]
    nconts = len(setup["conts"])
    progs = [[o for o in pr if o.get("cont", 0) < nconts] for pr in progs]
    if len(setup["series"]) > 6:
        # large pools: whole-collection routines in the pure-Python engine cost millions of traced line events per caller;
        # the concurrent callers then run the pairwise routines only
        progs = [pr for pr in progs if all(o["op"] in ("pair", "npair", "new_sa", "use") for o in pr)]
    progs = [pr for pr in progs if pr]
    if len(progs) < 2:
        return None

    def runner(pool, prog):
        def f():
            return [run_op(pool, o, alone=True) for o in prog]
        return f

    alone = [runner(Pool(setup), pr)() for pr in progs]
    pools = [Pool(setup) for _ in progs]
    sim = threadsim.ThreadSim(core.Rng(op["tseed"]), os.path.dirname(os.path.abspath(dtaidistance.__file__)), switch_one_in=op.get("one_in", 12), max_events=5000000)
    res = sim.run([runner(pl, pr) for pl, pr in zip(pools, progs)])
    bump("op:threads")
    bump("threads:callers", len(progs))
    bump("threads:line_events", sim.nevents)
    bump("fault:thread_preemptions_inside_library_calls", sim.nswitches)
    obs.append([opi, "threads", core.hash_obj([list(x) for x in sim.log]), core.digest_value([r[1] if r[0] == "ok" else r for r in res])])
    for ti, (r, exp) in enumerate(zip(res, alone)):
        got = r[1] if r[0] == "ok" else ["exc", r[1]]
        if not same_exact(got, exp):
            return {"class": "concurrent-call-interference",
                    "detail": "caller thread %d of %d ran %s interleaved with the other callers (%d pre-emptions, all objects private) and got %s; alone it gets %s"
                              % (ti, len(progs), json.dumps(progs[ti])[:200], sim.nswitches, str(got)[:120], str(exp)[:120])}
    for pl in pools:
        ch = pl.changed()
        if ch is not None:
            return {"class": "input-modified", "detail": "concurrent callers: resource %s modified" % ch}
    return None


def _arrays_in(x, out=None, depth=0):
    import numpy as np
    out = [] if out is None else out
    if isinstance(x, np.ndarray) and x.size:
        out.append(x)
    elif isinstance(x, (list, tuple)) and depth < 3:
        for v in x[:8]:
            _arrays_in(v, out, depth + 1)
    return out


def _is_exc(r):
    return isinstance(r, list) and len(r) == 2 and r[0] == "exc"


def execute(history):
    setup = history["setup"]
    viols = []
    cnt = {}

    def bump(k, v=1):
        cnt[k] = cnt.get(k, 0) + v

    def add(v, opi):
        v["op"] = opi
        viols.append(v)

    pool = Pool(setup)
    creators = {}
    tainted = set()
    obs = []
    kept = []
    for opi, op in enumerate(history["ops"]):
        kind = op["op"]
        if kind.startswith("new_"):
            creators[op["obj"]] = op
        if kind == "matrix" and op["cont"] >= len(pool.conts):
            continue
        if kind in ("dba", "new_ss") and op["cont"] >= len(pool.conts):
            continue
        if kind == "use" and op["cont"] >= len(pool.conts):
            continue
        if kind == "threads":
            try:
                v = run_threads(setup, op, bump, obs, opi)
            except Exception as exc:  # noqa
                raise core.HarnessError("thread simulation: %r" % (exc,))
            if v is not None:
                add(v, opi)
            continue
        try:
            with sessions.op_timeout(OP_WALL):
                if kind == "use" and op["obj"] in tainted:
                    bump("skipped_object_after_failed_call")
                    continue
                live = run_op(pool, op, alone=None)
                if live in ("no-object", "unknown-op"):
                    bump("skipped")
                    continue
                if kind == "use" and _is_exc(live):
                    # no property says what a model object is worth after one of its calls raised (e.g. for a container
                    # kind its engine does not accept): it is not used any further
                    tainted.add(op["obj"])
                bump("op:" + kind + (":" + op["fn"] if "fn" in op else ""))
                obs.append([opi, core.digest_value(live)])
                # result stability / aliasing: an array the library returned must not share memory with a pooled input and
                # must not be changed by later library calls
                raw = _RAW["last"] if kind in ("pair", "npair", "matrix", "dba", "refill") and not _is_exc(live) else None
                _RAW["last"] = None
                arrs = _arrays_in(raw)
                for a_ in arrs:
                    for name, base in pool.bases:
                        if isinstance(base, pool.np.ndarray) and pool.np.shares_memory(a_, base):
                            # returning a view of an argument is not a modification: recorded only (a later WRITE through it by
                            # the library would show up as input-modified / earlier-result-changed)
                            bump("info:result_shares_memory_with_an_input")
                            arrs = []
                            break
                for (opj, a_old, dg_old) in kept:
                    if core.digest_value(a_old) != dg_old:
                        add({"class": "earlier-result-changed", "detail": "an array returned by op %d was changed by the later call %s" % (opj, json.dumps(op)[:160])}, opi)
                        kept.clear()
                        break
                for a_ in arrs[:2]:
                    kept.append((opi, a_, core.digest_value(a_)))
                del kept[:-6]
                # 1. inputs untouched
                ch = pool.changed()
                if ch is not None:
                    add({"class": "input-modified", "detail": "after %s the pooled resource %s differs from its pristine snapshot" % (json.dumps(op)[:160], ch)}, opi)
                    pool.snap0 = pool.snapshot()
                if pool.dicts != setup["dicts"]:
                    bump("info:caller_options_dict_modified")
                # 2. history independence: same call alone in a fresh context with the same representations
                fresh = Pool(setup)
                if kind == "use":
                    cr = creators.get(op["obj"])
                    if cr is not None:
                        run_op(fresh, cr, alone=True)
                twin = run_op(fresh, op, alone=True)
                if not same_exact(twin, live):
                    add({"class": "history-dependence", "detail": "%s returned %s here, %s when issued alone in a fresh context" % (json.dumps(op)[:200], str(live)[:160], str(twin)[:160])}, opi)
                # 3. container independence: same call on canonical contiguous copies
                if _f32(op) and _iterative_python(op, creators):
                    # float32 rounding of the first average can flip a tie in the next iteration (see _iterative_python): not judged
                    bump("info:f32_iterative_python_not_compared")
                elif kind in ("pair", "npair", "matrix", "dba", "refill") and not _is_exc(live):
                    canon = Pool(setup, canonical=True, float_class=_iterative_python(op, creators))
                    cres = run_op(canon, op, alone=True)
                    if _is_exc(cres):
                        bump("canonical_raised:" + cres[1])
                    elif not same_tol(cres, live, F32_TOL if _f32(op) else 1e-9):
                        add({"class": "container-dependence", "detail": "%s returned %s on the pooled representation, %s on contiguous copies of the same numbers"
                                                                       % (json.dumps(op)[:200], str(live)[:160], str(cres)[:160])}, opi)
                elif kind == "use" and not _is_exc(live):
                    # long-lived model objects too: the same object built and asked on canonical contiguous copies
                    canon = Pool(setup, canonical=True, float_class=_iterative_python(op, creators))
                    cr = creators.get(op["obj"])
                    if cr is not None and not _is_exc(twin):
                        run_op(canon, cr, alone=True)
                        cres = run_op(canon, op, alone=True)
                        if _is_exc(cres):
                            bump("canonical_raised:" + cres[1])
                        elif not same_tol(cres, twin):
                            add({"class": "container-dependence", "detail": "%s on an object built from the pooled representations returns %s, built from contiguous copies of the same numbers %s"
                                                                           % (json.dumps(op)[:200], str(twin)[:160], str(cres)[:160])}, opi)
                elif _is_exc(live):
                    bump("raised:" + live[1])
        except sessions.OpTimeout:
            bump("op_timeout")
            add({"class": "hang", "detail": "%s did not return within %d s" % (kind, OP_WALL)}, opi)
            break
    return {"violations": viols[:4], "counters": cnt, "nontrivial": sessions.sessions_interleaved(history),
            "digest": core.hash_obj([obs, [[v["class"], v["op"]] for v in viols]])}


def signature(history, viol):
    ops = history["ops"]
    opi = viol.get("op")
    feats = []
    if opi is not None and opi < len(ops):
        op = ops[opi]
        feats.append(op["op"])
        if "fn" in op:
            feats.append(op["fn"])
        if op["op"] == "threads":
            feats.append("+".join(sorted({pr[0].get("fn", pr[0]["op"]) for pr in op["progs"] if pr})))
        if op["op"] == "use":
            cr = next((o for o in ops if o["op"].startswith("new_") and o.get("obj") == op["obj"]), None)
            if cr:
                feats.append(cr["op"][4:])
                if cr["op"] == "new_ss" and cr.get("dict") is not None and cr["dict"] < len(history["setup"]["dicts"]) and history["setup"]["dicts"][cr["dict"]].get("psi") not in (None, 0, [0, 0, 0, 0]):
                    feats.append("psi-relaxation")
        if op.get("use_c"):
            feats.append("use_c")
        if viol["class"] == "container-dependence" and op["op"] in ("pair", "npair"):
            feats.append("reps=%s,%s" % (op["a"][1], op["b"][1]))
        if viol["class"] == "history-dependence":
            prior = [o for o in ops[:opi]]
            if any(o["op"] == "use" and next((c for c in ops if c["op"] == "new_hier" and c.get("obj") == o["obj"]), None) for o in prior):
                feats.append("after-hier-fit")
    return "C20/%s/%s" % (viol["class"], "/".join(feats))


def shrink(h):
    setup = h["setup"]
    out = []
    for di, d in enumerate(setup["dicts"]):
        for k in list(d):
            s2 = copy.deepcopy(setup); del s2["dicts"][di][k]
            out.append({"setup": s2, "ops": copy.deepcopy(h["ops"])})
    maxpsi = max([(max(d["psi"]) if isinstance(d.get("psi"), list) else d.get("psi", 0)) for d in setup["dicts"]] + [0])
    for i, s in enumerate(setup["series"]):
        # keep every series longer than the largest psi (psi == length is a degenerate combination)
        if setup.get("overlap") and i in setup["overlap"][:2]:
            continue
        if len(s) > max(2, maxpsi + 1) and not any(c["kind"] == "matrix" and i in c["idxs"] for c in setup["conts"]):
            s2 = copy.deepcopy(setup); s2["series"][i] = s[:-1]
            out.append({"setup": s2, "ops": copy.deepcopy(h["ops"])})
    for ci, c in enumerate(setup["conts"]):
        if len(c["idxs"]) > 2:
            s2 = copy.deepcopy(setup); s2["conts"][ci]["idxs"] = c["idxs"][:-1]; s2["conts"][ci]["reps"] = c["reps"][:-1]
            out.append({"setup": s2, "ops": copy.deepcopy(h["ops"])})
        if c["kind"] != "list_nd":
            s2 = copy.deepcopy(setup); s2["conts"][ci]["kind"] = "list_nd"
            out.append({"setup": s2, "ops": copy.deepcopy(h["ops"])})
    for i, op in enumerate(h["ops"]):
        for key in ("a", "b", "c", "q", "s"):
            if isinstance(op.get(key), list) and op[key][1] != "nd":
                ops = copy.deepcopy(h["ops"]); ops[i][key][1] = "nd"
                out.append({"setup": copy.deepcopy(setup), "ops": ops})
        for key, val in (("opts", None), ("use_c", False), ("block", None), ("compact", True)):
            if key in op and op[key] != val:
                ops = copy.deepcopy(h["ops"]); ops[i][key] = val
                out.append({"setup": copy.deepcopy(setup), "ops": ops})
    for i, op in enumerate(h["ops"]):
        if op["op"] == "refill":
            if len(op["calls"]) > 2:
                for d in range(len(op["calls"])):
                    ops = copy.deepcopy(h["ops"]); del ops[i]["calls"][d]
                    out.append({"setup": copy.deepcopy(setup), "ops": ops})
            if op["rep"] != "nd":
                ops = copy.deepcopy(h["ops"]); ops[i]["rep"] = "nd"
                out.append({"setup": copy.deepcopy(setup), "ops": ops})
        if op["op"] == "threads":
            if len(op["progs"]) > 2:
                for d in range(len(op["progs"])):
                    ops = copy.deepcopy(h["ops"]); del ops[i]["progs"][d]
                    out.append({"setup": copy.deepcopy(setup), "ops": ops})
            for ti, pr in enumerate(op["progs"]):
                for o in pr:
                    for key in ("a", "b", "c", "q", "s"):
                        if isinstance(o.get(key), list) and o[key][1] != "nd":
                            ops = copy.deepcopy(h["ops"])
                            for o2 in ops[i]["progs"][ti]:
                                if isinstance(o2.get(key), list):
                                    o2[key][1] = "nd"
                            out.append({"setup": copy.deepcopy(setup), "ops": ops})
                            break
    if len({o.get("s") for o in h["ops"]}) > 1:
        ops = copy.deepcopy(h["ops"])
        for o in ops:
            o["s"] = 0
        out.append({"setup": copy.deepcopy(setup), "ops": ops})
    return out


AUX_ENV = {"DTAIDISTANCE_TESTWITHOUTNUMPY": "1"}
PURE_REPS = ("list", "tuple", "array")
PURE_FNS = ("distance", "lb_keogh", "ub_euclidean", "ed_distance", "distance_fast", "ed_distance_fast")


def aux_digest(history):
    """The NumPy-free subset of a history (pure-Python containers, routines that do not require NumPy), executed in
    the current process configuration.  Run once with NumPy importable and once with DTAIDISTANCE_TESTWITHOUTNUMPY=1
    (the library's own switch); the per-op results must be identical (C20: 'nor on whether NumPy is importable')."""
    from dtaidistance import dtw, ed
    setup = history["setup"]
    out = []

    def mk(ref):
        v = setup["series"][ref[0]]
        return list(v) if ref[1] == "list" else (tuple(v) if ref[1] == "tuple" else array.array("d", v))

    for opi, op in enumerate(history["ops"]):
        try:
            if op["op"] == "pair" and op["fn"] in PURE_FNS and op["a"][1] in PURE_REPS and op["b"][1] in PURE_REPS:
                a, b = mk(op["a"]), mk(op["b"])
                o = dict(setup["dicts"][op["opts"]]) if op["opts"] is not None and op["opts"] < len(setup["dicts"]) else {}
                fn, uc = op["fn"], op["use_c"]
                if fn.endswith("_fast") or uc:
                    # the C entry points need buffers: array.array is the NumPy-free one
                    a, b = array.array("d", a), array.array("d", b)
                if fn == "distance":
                    r = dtw.distance(a, b, use_c=uc, **o)
                elif fn == "distance_fast":
                    r = dtw.distance_fast(a, b, **o)
                elif fn == "lb_keogh":
                    r = dtw.lb_keogh(a, b, use_c=uc, **{k: v for k, v in o.items() if k in ("window", "max_dist", "max_step", "inner_dist")})
                elif fn == "ub_euclidean":
                    r = dtw.ub_euclidean(a, b)
                elif fn == "ed_distance":
                    r = ed.distance(a, b)
                else:
                    r = ed.distance_fast(a, b)
                out.append([opi, core.fbits(r)])
            elif op["op"] == "matrix" and op["cont"] < len(setup["conts"]) and not op.get("fast"):
                c = setup["conts"][op["cont"]]
                o = dict(setup["dicts"][op["opts"]]) if op["opts"] is not None and op["opts"] < len(setup["dicts"]) else {}
                ser = [array.array("d", setup["series"][i]) for i in c["idxs"]]
                r = dtw.distance_matrix(ser, compact=True, parallel=False, use_c=op["use_c"], **o)
                out.append([opi, [core.fbits(x) for x in r]])
        except Exception as exc:  # noqa
            out.append([opi, "exc:" + type(exc).__name__])
    return out


def main(tier, seed):
    sessions.Runner("sim.props.c20").run(tier, seed)


def replay(path):
    sessions.Runner("sim.props.c20").replay(path)
