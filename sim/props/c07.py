"""C07 — parallel distance-matrix computation is schedule-independent (DESIGN.md §4, C07).

Layer A: native driver, the six dtw_distances_*_parallel routines under simomp.
Layer B: Python -> Cython -> C (dtw_cc_omp) under simomp, via dtw.distance_matrix(parallel=True, use_c=True).
Layer C: multiprocessing branches of dtw.distance_matrix under simpool.
Oracle everywhere: element-for-element identical to the serial call with the same arguments.
"""
import ctypes
import json
import os
import shutil
import subprocess
import sys
import time

from .. import build, core, simpool

PROP = "C07"
LOOP_NAMES = ["static-block", "static-cyclic", "dynamic", "guided", "adversarial-preplanned", "adversarial-on-demand"]
PRE_NAMES = ["none", "bernoulli", "pct", "stall", "race-directed"]
FN_NAMES = ["ptrs", "ndim_ptrs", "matrix", "ndim_matrix", "matrices", "ndim_matrices"]

# ==================================================================================================
# Layer A
# ==================================================================================================

def _scratch_dir(tag):
    d = os.path.join(build.CACHE, "run-%s-%d" % (tag, os.getpid()))
    os.makedirs(d, exist_ok=True)
    return d


def layerA_task(cache, opt, seed, frm, count, outdir, tag, wall):
    drv = os.path.join(cache, "native", "driver_c07_" + opt)
    t0 = time.time()
    env = dict(os.environ)
    if frm == 0:
        env["C07_SAMPLE"] = "1"
    try:
        p = subprocess.run([drv, "gen", str(seed), str(frm), str(count), outdir, tag], stdout=subprocess.DEVNULL,
                           stderr=subprocess.PIPE, timeout=wall, env=env)
    except subprocess.TimeoutExpired:
        raise core.HarnessError("native driver timed out (%s s) on range %d+%d" % (wall, frm, count))
    res = {"exit": p.returncode, "frm": frm, "count": count, "opt": opt, "tag": tag, "wall": time.time() - t0}
    if p.returncode not in (0, 1):
        raise core.HarnessError("native driver exit %d: %s" % (p.returncode, p.stderr.decode(errors="replace")[-2000:]))
    with open(os.path.join(outdir, tag + ".summary")) as f:
        lines = [json.loads(l) for l in f if l.strip()]
    res["summary"] = lines[-1]
    with open(os.path.join(outdir, tag + ".hashes"), "rb") as f:
        res["hashes"] = f.read()
    with open(os.path.join(outdir, tag + ".digests")) as f:
        res["digest_lines"] = core.hash_obj(f.read())
    if p.returncode == 1:
        with open(os.path.join(outdir, tag + ".case")) as f:
            res["case"] = f.read()
    if os.path.exists(os.path.join(outdir, tag + ".sample")):
        with open(os.path.join(outdir, tag + ".sample")) as f:
            res["sample"] = parse_case(f.read())
    for ext in (".summary", ".hashes", ".digests", ".sample"):
        try:
            os.remove(os.path.join(outdir, tag + ext))
        except OSError:
            pass
    return res


def parse_case(text):
    """native text case -> JSON-able dict (doubles kept as C hex-float strings: exact)."""
    d = {"format": "c07case-1", "series": [], "plan": {}, "switches": []}
    for line in text.splitlines():
        t = line.split()
        if not t:
            continue
        k = t[0]
        if k in ("fn", "ndim", "nr", "nc", "ns", "threads", "threads_used"):
            d[k] = int(t[1])
        elif k in ("fnname", "violation"):
            d[k] = t[1]
        elif k == "series":
            d["series"].append({"len": int(t[2]), "values": t[3:]})
        elif k == "block":
            d["block"] = [int(x) for x in t[1:6]]
        elif k == "settings":
            d["settings"] = t[1:14]
        elif k == "loop":
            d["loop"] = [int(t[1]), int(t[2])]
        elif k == "preempt":
            d["preempt"] = [int(t[1]), int(t[2])]
        elif k in ("schedseed", "subseed"):
            d[k] = int(t[1])
        elif k == "plan":
            v = [int(x) for x in t[3:]]
            d["plan"][t[1]] = [[v[2 * i], v[2 * i + 1]] for i in range(int(t[2]))]
        elif k == "switches":
            v = [int(x) for x in t[2:]]
            d["switches"] = [[v[2 * i], v[2 * i + 1]] for i in range(int(t[1]))]
    return d


def format_case(d, with_trace=True):
    out = ["c07case 1", "fn %d" % d["fn"], "ndim %d" % d["ndim"], "nr %d" % d["nr"], "nc %d" % d["nc"], "ns %d" % len(d["series"])]
    for i, s in enumerate(d["series"]):
        out.append("series %d %d %s" % (i, s["len"], " ".join(s["values"])))
    out.append("block " + " ".join(str(x) for x in d["block"]))
    out.append("settings " + " ".join(str(x) for x in d["settings"]))
    out.append("threads %d" % d.get("threads", 2))
    out.append("loop %d %d" % tuple(d.get("loop", [2, 1])))
    out.append("preempt %d %d" % tuple(d.get("preempt", [1, 16])))
    out.append("schedseed %d" % d.get("schedseed", 1))
    if with_trace and ("plan" in d and d["plan"]):
        out.append("threads_used %d" % d.get("threads_used", d.get("threads", 2)))
        for t in sorted(d["plan"], key=int):
            pl = d["plan"][t]
            out.append("plan %s %d %s" % (t, len(pl), " ".join("%d %d" % (a, b) for a, b in pl)))
        sw = d.get("switches", [])
        out.append("switches %d %s" % (len(sw), " ".join("%d %d" % (a, b) for a, b in sw)))
    out.append("end")
    return "\n".join(out) + "\n"


def native_run(cache, opt, mode, case, outdir, tag, seed=1, count=1, keep_policy=False, wall=120):
    """mode 'replay' or 'sched'.  Returns (exit, summary, case_text_or_None)."""
    drv = os.path.join(cache, "native", "driver_c07_" + opt)
    cf = os.path.join(outdir, tag + ".in")
    with open(cf, "w") as f:
        f.write(format_case(case, with_trace=(mode == "replay")))
    env = dict(os.environ)
    if keep_policy:
        env["C07_KEEP_POLICY"] = "1"
    else:
        env.pop("C07_KEEP_POLICY", None)
    if mode == "replay":
        cmd = [drv, "replay", cf, outdir, tag]
    else:
        cmd = [drv, "sched", cf, str(seed), str(count), outdir, tag]
    try:
        p = subprocess.run(cmd, stdout=subprocess.DEVNULL, stderr=subprocess.PIPE, timeout=wall, env=env)
    except subprocess.TimeoutExpired:
        return 2, None, None
    summ = None
    try:
        with open(os.path.join(outdir, tag + ".summary")) as f:
            summ = [json.loads(l) for l in f if l.strip()][-1]
    except (OSError, ValueError, IndexError):
        pass
    ctext = None
    if p.returncode == 1:
        with open(os.path.join(outdir, tag + ".case")) as f:
            ctext = f.read()
    for ext in (".summary", ".hashes", ".digests", ".case", ".in"):
        try:
            os.remove(os.path.join(outdir, tag + ext))
        except OSError:
            pass
    return p.returncode, summ, ctext


def minimise_native(cache, opt, case, outdir, vclass, log):
    """Shrink inputs (each candidate gets a fresh budget of random schedules), then ddmin the switch list."""
    tagn = [0]

    def fails_somehow(c, n=600):
        tagn[0] += 1
        ex, summ, ctext = native_run(cache, opt, "sched", c, outdir, "min%d" % tagn[0], seed=7, count=n)
        if ex == 1 and ctext:
            return parse_case(ctext)
        return None

    def replay_fails(c):
        tagn[0] += 1
        ex, summ, ctext = native_run(cache, opt, "replay", c, outdir, "min%d" % tagn[0])
        return ex == 1

    cur = case
    # --- input shrinking ---
    changed = True
    rounds = 0
    while changed and rounds < 6:
        changed = False
        rounds += 1
        form = cur["fn"] // 2
        cands = []
        # fewer threads
        for T in (2, 3):
            if cur.get("threads", 2) > T:
                c = json.loads(json.dumps(cur)); c["threads"] = T; cands.append(c)
        # drop last series (ptrs / matrix forms) when the block allows it
        if form != 2 and cur["nr"] > 2:
            c = json.loads(json.dumps(cur))
            c["series"] = c["series"][:-1]; c["nr"] -= 1; c["nc"] -= 1
            b = c["block"]
            if b[1] <= c["nr"] and b[3] <= c["nc"]:
                cands.append(c)
        # drop the block
        if cur["block"][:4] != [0, 0, 0, 0]:
            c = json.loads(json.dumps(cur)); c["block"] = [0, 0, 0, 0, c["block"][4]]; cands.append(c)
        # default settings one by one
        defaults = ["0", "0x0p+0", "0x0p+0", "0", "0x0p+0", "0", "0", "0", "0", "0", "0", "0", "0"]
        for i in range(13):
            if str(cur["settings"][i]) != defaults[i]:
                c = json.loads(json.dumps(cur)); c["settings"][i] = defaults[i]; cands.append(c)
        # shorten series (all by one) keeping psi valid
        minlen = min(s["len"] for s in cur["series"])
        psimax = max(int(x) for x in cur["settings"][5:9])
        if minlen > 1 and psimax <= minlen - 1:
            c = json.loads(json.dumps(cur))
            nd = c["ndim"]
            for s in c["series"]:
                s["len"] -= 1; s["values"] = s["values"][:s["len"] * nd]
            cands.append(c)
        # ndim -> 1 is not possible without changing fn; integer-ise values
        c = json.loads(json.dumps(cur))
        for s in c["series"]:
            s["values"] = [float(round(float.fromhex(v))).hex() for v in s["values"]]
        if c != cur:
            cands.append(c)
        for c in cands:
            c.pop("plan", None); c.pop("switches", None)
            r = fails_somehow(c)
            if r is not None and r.get("violation") == vclass:
                cur = r
                changed = True
                break
    if not cur.get("plan"):
        r = fails_somehow(cur, 2000)
        if r is None:
            return case
        cur = r
    # --- schedule shrinking: ddmin over switches with the chunk plan fixed ---
    sw = cur.get("switches", [])
    base = json.loads(json.dumps(cur))

    def t(sub):
        c = dict(base); c["switches"] = sorted(sub)
        return replay_fails(c)

    if replay_fails(base):
        small = core.ddmin(sw, t, max_tests=300)
        base["switches"] = sorted(small)
        cur = base
    log("minimised: %d series, %d threads, %d switches" % (len(cur["series"]), cur.get("threads_used", cur.get("threads", 0)), len(cur.get("switches", []))))
    return cur


# ==================================================================================================
# Python-level workloads (layers B and C)
# ==================================================================================================

def gen_py_case(rng, layer):
    ndim = rng.below(3) == 0
    big = rng.below(24) == 0          # swarm sizing: one case in 24 is much larger than the rest
    n = 9 + rng.below(10) if big else 1 + rng.below(8)
    maxl = 20 if big else 9
    d = 1 + rng.below(3) if ndim else 1
    grid = rng.below(3)

    def val():
        if grid == 0:
            return float(rng.below(5) - 2)
        if grid == 1:
            return (rng.below(21) - 10) * 0.5
        return round(rng.uniform(-4, 4), 3)

    equal = rng.below(3) == 0
    L0 = 1 + rng.below(maxl)
    series = []
    for i in range(n):
        L = L0 if equal else 1 + rng.below(maxl)
        if ndim:
            series.append([[val() for _ in range(d)] for _ in range(L)])
        else:
            series.append([val() for _ in range(L)])
        if i > 0 and rng.below(6) == 0:
            series[i] = json.loads(json.dumps(series[i - 1]))
    if equal:
        container = rng.choice(["list", "matrix", "views"])
    else:
        container = rng.choice(["list", "list", "views"])
    minlen = min(len(s) for s in series)
    maxlen = max(len(s) for s in series)
    kw = {}
    if rng.below(2):
        kw["window"] = 1 + rng.below(maxlen + 1)
    if rng.below(4) == 0:
        kw["max_dist"] = round(rng.uniform(0.5, 6.0), 3)
    if rng.below(5) == 0:
        kw["max_step"] = round(rng.uniform(0.5, 4.0), 3)
    if rng.below(5) == 0:
        kw["max_length_diff"] = 1 + rng.below(5)
    if rng.below(3) == 0:
        kw["penalty"] = rng.choice([0.5, 1.0, round(rng.uniform(0, 3), 3)])
    if rng.below(3) == 0:
        # psi up to the shortest series; one psi setting in four goes up to the longest series + 1 (see driver_c07.c)
        plim = minlen + 1 if rng.below(4) else max(len(x) for x in series) + 2
        if rng.below(2):
            kw["psi"] = rng.below(plim)
        else:
            kw["psi"] = [rng.below(plim) for _ in range(4)]
    if rng.below(4) == 0:
        kw["use_pruning"] = True
    if rng.below(3) == 0:
        kw["inner_dist"] = "euclidean"
    block = None
    bk = rng.below(8)
    if bk >= 2 and n >= 1:
        rb = rng.below(n); re = rb + 1 + rng.below(n - rb)
        cb = rng.below(n); ce = cb + 1 + rng.below(n - cb)
        block = [[rb, re], [cb, ce]]
        if bk >= 6:
            block.append(False)
    compact = bool(rng.below(2)) or (block is not None and len(block) > 2)
    only_triu = (not compact) and rng.below(3) == 0
    c = {"layer": layer, "series": series, "container": container, "ndim": ndim, "kwargs": kw, "block": block,
         "compact": compact, "only_triu": only_triu, "entry": rng.choice(["dtw", "dtw", "fast", "ndim_module"])}
    if layer == "B":
        c["use_c"] = True
        c["use_mp"] = False
        rows = (block[0][1] - block[0][0]) if block else n
        k = rng.below(8)
        T = [1, 2, max(1, rows - 1), rows, rows + 1, 64, 2 + rng.below(4), 1 + rng.below(64)][k]
        pk = rng.below(16)
        if pk == 0:
            pre = [0, 0]
        elif pk <= 3:
            pre = [2, rng.below(6)]
        elif pk <= 5:
            pre = [3, 64]
        else:
            pre = [1, rng.choice([4, 16, 64, 256])]
        c["sched"] = {"T": max(1, T), "loop": [rng.below(6), 1 + rng.below(3)], "pre": pre, "seed": rng.u64()}
    else:
        c["use_c"] = bool(rng.below(2))
        c["use_mp"] = True
        c["sched"] = {"seed": rng.u64()}
    return c


def build_container(c):
    import numpy as np
    if c["container"] == "matrix":
        return np.array(c["series"], dtype=np.double)
    if c["container"] == "views":
        # the same numbers as non-contiguous views (every second element of a larger array / reversed): the serial and the
        # parallel routes must agree on these too
        out = []
        for i, s in enumerate(c["series"]):
            a = np.array(s, dtype=np.double)
            if a.ndim == 2 and i % 3 == 2:
                # Fortran-ordered (column-major) storage of the same numbers: what a transposed array or a slice of a
                # (dims x time) recording looks like
                out.append(np.asfortranarray(a))
            elif i % 2 == 0:
                base = np.full((2 * len(s),) + a.shape[1:], 7.75)
                base[::2] = a
                out.append(base[::2])
            else:
                out.append(np.ascontiguousarray(a[::-1])[::-1])
        return out
    return [np.array(s, dtype=np.double) for s in c["series"]]


def py_kwargs(c):
    kw = dict(c["kwargs"])
    if isinstance(kw.get("psi"), list):
        kw["psi"] = tuple(kw["psi"])
    if c["ndim"]:
        kw["use_ndim"] = True
    blk = c["block"]
    if blk is not None:
        blk = tuple(tuple(x) if isinstance(x, list) else x for x in blk)
    return kw, blk


def call_matrix(c, s, blk, kw, parallel, use_c, use_mp):
    """The public entry points that lead to the parallel routines: dtw.distance_matrix, dtw.distance_matrix_fast and the
    dtw_ndim module's twins.  The serial twin always goes through the same entry with parallel=False."""
    from dtaidistance import dtw, dtw_ndim
    entry = c.get("entry", "dtw")
    if entry == "fast" and c["ndim"] and c["layer"] == "C":
        # dtw_ndim.distance_matrix_fast has neither a use_mp nor a use_pruning parameter: the multiprocessing layer uses the
        # generic entry for BOTH the serial twin and the parallel run (same arguments on both sides, always)
        entry = "dtw"
    common = dict(block=blk, compact=c["compact"], only_triu=c["only_triu"], parallel=parallel)
    if entry == "fast" and use_c:
        k2 = {k: v for k, v in kw.items() if k != "use_ndim"}
        if c["ndim"]:
            return dtw_ndim.distance_matrix_fast(s, **{k: v for k, v in k2.items() if k != "use_pruning"}, **common)
        return dtw.distance_matrix_fast(s, use_mp=use_mp, **k2, **common)
    if entry == "ndim_module" and c["ndim"]:
        k2 = {k: v for k, v in kw.items() if k != "use_ndim"}
        return dtw_ndim.distance_matrix(s, use_c=use_c, use_mp=use_mp, **k2, **common)
    return dtw.distance_matrix(s, use_c=use_c, use_mp=use_mp, **kw, **common)


def norm_result(r):
    import array
    import numpy as np
    if isinstance(r, np.ndarray):
        return ("nd", r.shape, np.ascontiguousarray(r, dtype=np.double).tobytes())
    if isinstance(r, (list, tuple, array.array)):
        return ("seq", len(r), np.array(list(r), dtype=np.double).tobytes())
    return ("other", repr(r))


class SimOmp:
    class Stats(ctypes.Structure):
        _fields_ = [(n, ctypes.c_uint64) for n in
                    ("events", "switches", "forced_switches", "chunks", "denied", "stalls", "race_directed", "barriers", "lock_waits",
                     "regions", "threads_without_chunk", "threads_ran", "fair_fallback", "allocs", "frees", "double_free", "bad_free",
                     "set_num_threads_calls")]

    def __init__(self):
        from dtaidistance import dtw_cc_omp
        L = ctypes.CDLL(dtw_cc_omp.__file__)
        if not hasattr(L, "simomp_reset"):
            raise core.HarnessError("dtw_cc_omp is not linked against simomp")
        L.simomp_set_seed.argtypes = [ctypes.c_uint64]
        L.simomp_set_budget.argtypes = [ctypes.c_uint64]
        L.simomp_set_estimate.argtypes = [ctypes.c_uint64]
        L.simomp_set_loop_policy.argtypes = [ctypes.c_int, ctypes.c_long]
        L.simomp_set_preempt_policy.argtypes = [ctypes.c_int, ctypes.c_long]
        L.simomp_replay_plan.argtypes = [ctypes.c_int, ctypes.c_long, ctypes.c_long]
        L.simomp_replay_switch.argtypes = [ctypes.c_uint64, ctypes.c_int]
        L.simomp_events.restype = ctypes.c_uint64
        L.simomp_sched_digest.restype = ctypes.c_uint64
        L.simomp_access_digest.restype = ctypes.c_uint64
        L.simomp_stats.restype = ctypes.POINTER(SimOmp.Stats)
        L.simomp_trace_nswitch.restype = ctypes.c_long
        L.simomp_trace_nplan.restype = ctypes.c_long
        L.simomp_trace_switch.argtypes = [ctypes.c_long, ctypes.POINTER(ctypes.c_uint64), ctypes.POINTER(ctypes.c_int)]
        L.simomp_trace_plan.argtypes = [ctypes.c_int, ctypes.c_long, ctypes.POINTER(ctypes.c_long), ctypes.POINTER(ctypes.c_long)]
        self.L = L

    def configure(self, sched):
        L = self.L
        L.simomp_reset()
        L.simomp_set_seed(sched["seed"] & core.MASK)
        L.simomp_set_threads(int(sched["T"]))
        L.simomp_set_loop_policy(int(sched["loop"][0]), int(sched["loop"][1]))
        L.simomp_set_preempt_policy(int(sched["pre"][0]), int(sched["pre"][1]))
        L.simomp_set_estimate(20000)
        L.simomp_set_budget(200 * 1000 * 1000)
        tr = sched.get("trace")
        if tr:
            L.simomp_replay_begin(int(tr["T"]))
            for t, pl in tr["plan"].items():
                for a, b in pl:
                    L.simomp_replay_plan(int(t), a, b)
            for ev, to in tr["switches"]:
                L.simomp_replay_switch(ev, to)

    def trace(self):
        L = self.L
        T = L.simomp_threads_used()
        plan = {}
        for t in range(T):
            n = L.simomp_trace_nplan(t)
            pl = []
            a = ctypes.c_long(); b = ctypes.c_long()
            for j in range(n):
                L.simomp_trace_plan(t, j, ctypes.byref(a), ctypes.byref(b))
                pl.append([a.value, b.value])
            plan[str(t)] = pl
        sw = []
        ev = ctypes.c_uint64(); to = ctypes.c_int()
        for i in range(L.simomp_trace_nswitch()):
            L.simomp_trace_switch(i, ctypes.byref(ev), ctypes.byref(to))
            sw.append([ev.value, to.value])
        return {"T": T, "plan": plan, "switches": sw}

    def stats(self):
        st = self.L.simomp_stats().contents
        return {n: getattr(st, n) for n, _ in SimOmp.Stats._fields_}


_simomp = None
_stage_fd = None


def _stage(b):
    """Crash attribution: which half of a case (serial twin / parallel run) was executing."""
    if _stage_fd is not None:
        os.pwrite(_stage_fd, b, 0)


def run_py_case(c, want_trace=False):
    """Execute one Python-level case.  Returns dict(outcome=pass|violation|skip, vclass, info...)."""
    global _simomp
    from dtaidistance import dtw
    kw, blk = py_kwargs(c)
    out = {"outcome": "pass", "vclass": None}
    _stage(b"S")
    # serial twin
    try:
        s1 = build_container(c)
        ser = call_matrix(c, s1, blk, kw, False, c["use_c"], False)
        ser_n = norm_result(ser)
    except Exception as exc:  # noqa
        out["outcome"] = "skip"
        out["serial_exc"] = type(exc).__name__
        return out
    s2 = build_container(c)
    par_exc = None
    _stage(b"P")
    try:
        if c["layer"] == "B":
            if _simomp is None:
                _simomp = SimOmp()
            _simomp.configure(c["sched"])
            par = call_matrix(c, s2, blk, kw, True, True, False)
            st = _simomp.stats()
            out["stats"] = st
            out["sched_digest"] = _simomp.L.simomp_sched_digest()
            out["status"] = _simomp.L.simomp_status()
            if want_trace:
                out["trace"] = _simomp.trace()
        else:
            tr = c["sched"].get("trace")
            sim = simpool.PoolSim(rng=core.Rng(c["sched"]["seed"]), replay=tr, backend=c["sched"].get("backend", "inproc"))
            with simpool.install(sim):
                par = call_matrix(c, s2, blk, kw, True, c["use_c"], True)
            out["pool"] = sim.counters
            out["trace"] = sim.trace
            out["sched_digest"] = int(core.hash_obj(sim.trace), 16)
    except Exception as exc:  # noqa
        par_exc = exc
        if c["layer"] == "B" and _simomp is not None:
            _simomp.L.simomp_reset()
    if par_exc is not None:
        out["outcome"] = "violation"
        out["vclass"] = "exception:" + type(par_exc).__name__
        out["detail"] = repr(par_exc)[:300]
        return out
    if c["layer"] == "B" and out.get("status"):
        out["outcome"] = "violation"
        out["vclass"] = {1: "deadlock", 2: "nontermination", 3: "badplan"}.get(out["status"], "status")
        if out["status"] == 3:
            out["outcome"] = "invalid"
        return out
    par_n = norm_result(par)
    if par_n[1:] != ser_n[1:]:
        out["outcome"] = "violation"
        out["vclass"] = "output" if par_n[1] == ser_n[1] else "shape"
        return out
    # inputs untouched by the parallel run
    s_ref = build_container(c)
    import numpy as np
    for a, b in zip(s2 if isinstance(s2, list) else [s2], s_ref if isinstance(s_ref, list) else [s_ref]):
        if np.asarray(a).tobytes() != np.asarray(b).tobytes():
            out["outcome"] = "violation"
            out["vclass"] = "input-modified"
            return out
    return out


def py_batch_entry(cache, layer, seed, frm, count, progress):
    _import_pkg(cache)
    return py_batch(layer, seed, frm, count, progress)


def py_batch(layer, seed, frm, count, progress=None):
    """Worker: run `count` generated cases of one Python layer.  Returns counters, hashes, first violation."""
    pfd = os.open(progress, os.O_WRONLY | os.O_CREAT, 0o644) if progress else None
    res = {"runs": 0, "skipped": 0, "violations": [], "hashes": set(), "counters": {}, "samples": [], "events": 0, "digest": []}
    cnt = res["counters"]

    def bump(k, v=1):
        cnt[k] = cnt.get(k, 0) + v

    for i in range(frm, frm + count):
        rng = core.Rng(core.derive(seed, "C07", layer, i))
        c = gen_py_case(rng, layer)
        if pfd is not None:
            os.pwrite(pfd, b"%12d" % i, 0)
        r = run_py_case(c)
        res["runs"] += 1
        bump("container:" + c["container"] + (":ndim" if c["ndim"] else ""))
        bump("block:" + ("none" if c["block"] is None else ("rect" if len(c["block"]) > 2 else "triu")))
        bump("entry:" + c.get("entry", "dtw"))
        if r["outcome"] == "skip":
            res["skipped"] += 1
            bump("serial_raised:" + r.get("serial_exc", "?"))
            continue
        if layer == "B":
            st = r.get("stats") or {}
            res["events"] += st.get("events", 0)
            for k in ("switches", "forced_switches", "chunks", "denied", "stalls", "threads_without_chunk", "fair_fallback", "regions"):
                bump("simomp:" + k, st.get(k, 0))
            bump("loop:" + LOOP_NAMES[c["sched"]["loop"][0]])
            bump("preempt:" + PRE_NAMES[c["sched"]["pre"][0]])
            if c["sched"]["T"] == 1:
                bump("threads_1")
            if c["sched"]["T"] == 64:
                bump("threads_64")
            if st.get("threads_ran", 0) >= 2 and st.get("switches", 0) >= 1:
                res["hashes"].add(r["sched_digest"])
            if st.get("regions", 0) == 0:
                bump("no_parallel_region")
        else:
            p = r.get("pool") or {}
            for k, v in p.items():
                bump("pool:" + k, v)
            bump("engine:" + ("c" if c["use_c"] else "python"))
            if p.get("batches", 0) >= 2 and p.get("out_of_order", 0) >= 1:
                res["hashes"].add(r["sched_digest"])
        res["digest"].append([i, r["outcome"], r.get("sched_digest")])
        if len(res["samples"]) < 2 and r["outcome"] == "pass" and res["runs"] % 97 == 3:
            res["samples"].append({k: c[k] for k in ("layer", "series", "container", "ndim", "kwargs", "block", "compact", "only_triu", "use_c", "sched")})
        if r["outcome"] == "violation":
            full = run_py_case(c, want_trace=True)
            c2 = json.loads(json.dumps(c))
            if full.get("trace") is not None:
                c2["sched"]["trace"] = full["trace"]
            res["violations"].append({"index": i, "vclass": r["vclass"], "detail": r.get("detail"), "case": c2})
            if len(res["violations"]) >= 3:
                break
    res["hashes"] = sorted(res["hashes"])
    res["digest"] = core.hash_obj(res["digest"])
    if pfd is not None:
        os.close(pfd)
    return res


# --- isolated re-execution: code under test that corrupts memory must not take the orchestrator down ---------

_CACHE = None


def iso(funcname, *args, wall=600):
    done, _ = core.fanout_isolated("sim.props.c07", funcname, [(_CACHE,) + args], nproc=1, task_wall=wall)
    return done[0][1]


def case_entry(cache, c, want_trace, stagefile=None):
    global _stage_fd
    _import_pkg(cache)
    if stagefile:
        _stage_fd = os.open(stagefile, os.O_WRONLY | os.O_CREAT, 0o644)
    return run_py_case(c, want_trace=want_trace)


def run_case_iso(c, want_trace=False):
    stagefile = os.path.join(build.CACHE, "stage-%d" % os.getpid())
    try:
        r = iso("case_entry", c, want_trace, stagefile)
        stage = ""
        if "crashed" in r:
            try:
                with open(stagefile) as f:
                    stage = f.read(1)
            except OSError:
                pass
    finally:
        try:
            os.remove(stagefile)
        except OSError:
            pass
    if "crashed" in r:
        if stage != "P":
            # the SERIAL twin died: an input-dependent crash (C08 territory), not a schedule-dependence; the run is void
            return {"outcome": "skip", "serial_exc": "crash", "detail": r["stderr"][-300:]}
        return {"outcome": "violation", "vclass": "crash", "detail": "process died with status %s during the parallel run: %s" % (r["crashed"], r["stderr"][-300:])}
    return r


def probe_entry(cache, c, vclass, tries):
    _import_pkg(cache)
    return _fails_any_schedule(c, vclass, tries)


def probe_iso(c, vclass, tries):
    r = iso("probe_entry", c, vclass, tries)
    if isinstance(r, dict) and "crashed" in r:
        return c if vclass == "crash" else None
    return r


def batch_crashes(c):
    seed, frm, count = c["batch"]
    r = iso("py_batch_entry", c["layer"], seed, frm, count, None)
    return "crashed" in r or bool(r.get("violations"))


def py_signature(c, vclass):
    """Call-site level signature of a Python-layer violation (used for known findings)."""
    kw = c["kwargs"]
    psi = kw.get("psi")
    asym = isinstance(psi, (list, tuple)) and (psi[0] != psi[2] or psi[1] != psi[3])
    return "C07/%s/%s/use_c=%s/ndim=%s/asym_psi=%s" % (c["layer"], vclass, c["use_c"], c["ndim"], asym)


def py_replay_fails(c, vclass=None, tries=1):
    for _ in range(tries):
        r = run_case_iso(c)
        if r["outcome"] == "violation" and (vclass is None or r["vclass"] == vclass):
            return True
    return False


def _fails_any_schedule(c, vclass, tries):
    """Try `tries` fresh schedules on a candidate; return the failing case (with trace) or None."""
    for k in range(tries):
        c2 = json.loads(json.dumps(c))
        c2["sched"].pop("trace", None)
        c2["sched"]["seed"] = core.derive(c["sched"]["seed"], "retry", k)
        r = run_py_case(c2, want_trace=True)
        if r["outcome"] == "violation" and r["vclass"] == vclass:
            if r.get("trace") is not None:
                c2["sched"]["trace"] = r["trace"]
            return c2
    return None


def minimise_py(c, vclass, log):
    cur = c
    tries = 60 if c["layer"] == "B" else 12
    changed = True
    rounds = 0
    while changed and rounds < 8:
        changed = False
        rounds += 1
        cands = []
        n = len(cur["series"])
        if n > 2:
            for drop in (n - 1, 0):
                x = json.loads(json.dumps(cur))
                del x["series"][drop]
                b = x["block"]
                if b is not None and (b[0][1] > n - 1 or b[1][1] > n - 1):
                    continue
                cands.append(x)
        if cur["block"] is not None:
            x = json.loads(json.dumps(cur)); x["block"] = None; cands.append(x)
        for k in list(cur["kwargs"]):
            x = json.loads(json.dumps(cur)); del x["kwargs"][k]; cands.append(x)
        if not cur["compact"]:
            x = json.loads(json.dumps(cur)); x["compact"] = True; x["only_triu"] = False; cands.append(x)
        if cur["container"] == "matrix":
            x = json.loads(json.dumps(cur)); x["container"] = "list"; cands.append(x)
        minlen = min(len(s) for s in cur["series"])
        psi = cur["kwargs"].get("psi", 0)
        pmax = max(psi) if isinstance(psi, list) else psi
        if minlen > 1 and pmax <= minlen - 1:
            x = json.loads(json.dumps(cur)); x["series"] = [s[:-1] for s in x["series"]]; cands.append(x)
        if cur["layer"] == "B" and cur["sched"]["T"] > 2:
            x = json.loads(json.dumps(cur)); x["sched"]["T"] = 2; cands.append(x)
        for x in cands:
            r = probe_iso(x, vclass, tries)
            if r is not None:
                cur = r
                changed = True
                break
    if cur["layer"] == "B" and cur["sched"].get("trace"):
        base = json.loads(json.dumps(cur))
        sw = base["sched"]["trace"]["switches"]

        def t(sub):
            x = json.loads(json.dumps(base)); x["sched"]["trace"]["switches"] = sorted(sub)
            return py_replay_fails(x, vclass)

        if py_replay_fails(base, vclass):
            base["sched"]["trace"]["switches"] = sorted(core.ddmin(sw, t, max_tests=100))
            cur = base
    if cur["layer"] == "C" and cur["sched"].get("trace"):
        # simplest pool schedule that still fails: one worker, in-order
        x = json.loads(json.dumps(cur))
        for ent in x["sched"]["trace"]:
            ent["W"] = 1; ent["order"] = sorted(ent["order"]); ent["workers"] = [0] * len(ent["workers"]); ent["retired"] = 0
        if py_replay_fails(x, vclass):
            cur = x
    log("minimised python case: %d series, kwargs=%s" % (len(cur["series"]), cur["kwargs"]))
    return cur


# ==================================================================================================
# entry points
# ==================================================================================================

TIERS = {
    # cases per layer; the wall clock is a safety cap only
    "quick": {"A": 320000, "A_O1": 0, "B": 160000, "C": 32000, "C_fork": 0},
    "thorough": {"A": 8000000, "A_O1": 2000000, "B": 4000000, "C": 480000, "C_fork": 8000},
}


def _import_pkg(cache):
    p = os.path.join(cache, "pkg_sim")
    if p not in sys.path:
        sys.path.insert(0, p)
    import dtaidistance
    if not os.path.abspath(dtaidistance.__file__).startswith(os.path.abspath(p)):
        raise core.HarnessError("wrong dtaidistance on path: " + dtaidistance.__file__)


def fork_batch(seed, frm, count):
    """Layer C cross-validation with real forked workers."""
    res = {"runs": 0, "violations": [], "skipped": 0}
    for i in range(frm, frm + count):
        rng = core.Rng(core.derive(seed, "C07", "C", i))
        c = gen_py_case(rng, "C")
        c["sched"]["backend"] = "fork"
        r = run_py_case(c)
        res["runs"] += 1
        if r["outcome"] == "skip":
            res["skipped"] += 1
        if r["outcome"] == "violation":
            res["violations"].append({"index": i, "vclass": r["vclass"], "detail": r.get("detail"), "case": c})
            break
    return res


def main(tier, seed, log=print):
    global _CACHE
    t_start = time.time()
    cache = build.ensure_build()
    _CACHE = cache
    cfg = dict(TIERS[tier])
    scale = float(os.environ.get("VERIF_SCALE", "1"))
    for k in cfg:
        cfg[k] = int(cfg[k] * scale)
    outdir = _scratch_dir("c07")
    known = core.load_known_findings(PROP)
    new_violations, known_hits = [], []
    import glob
    for old_replay in glob.glob(os.path.join(core.REPLAY_DIR, PROP + "-*.json")):
        os.remove(old_replay)
    ev = {"layers": {}}
    all_hashes = set()
    total_runs = 0
    samples = []
    try:
        # ---------------- layer A ----------------
        for opt, key in (("O0", "A"), ("O1", "A_O1")):
            ncases = cfg[key]
            if not ncases:
                continue
            per = 4000
            tasks = [(cache, opt, seed, f, min(per, ncases - f), outdir, "a%s_%d" % (opt, f), 900) for f in range(0, ncases, per)]
            t0 = time.time()
            done, wall = core.fanout(layerA_task, tasks, total_wall=3 * 3600, stop_when=lambda r: r["exit"] == 1)
            agg = {}
            viol = None
            dig = []
            for _, r in done:
                s = r["summary"]
                for k, v in s.items():
                    if isinstance(v, int):
                        agg[k] = agg.get(k, 0) + v
                    elif isinstance(v, list):
                        agg[k] = [a + b for a, b in zip(agg.get(k, [0] * len(v)), v)]
                dig.append([r["frm"], r["digest_lines"]])
                h = r["hashes"]
                for j in range(0, len(h), 8):
                    all_hashes.add(("A", h[j:j + 8]))
                if r["exit"] == 1 and viol is None:
                    viol = r
                if r.get("sample") and not any(x.get("layer") == "A" for x in samples):
                    sm = r["sample"]; sm["layer"] = "A"; sm["opt"] = opt
                    samples.append(sm)
            agg.pop("exit", None)
            agg["by_fn"] = dict(zip(FN_NAMES, agg.get("by_fn", [])))
            agg["by_loop_policy"] = dict(zip(LOOP_NAMES, agg.pop("by_loop", [])))
            agg["by_preempt_policy"] = dict(zip(PRE_NAMES, agg.pop("by_preempt", [])))
            agg["wall_s"] = round(wall, 2)
            agg["runs_per_hour"] = int(agg.get("runs", 0) / max(wall, 1e-6) * 3600)
            agg["batch_digest"] = core.hash_obj(dig)
            agg["optimisation"] = "-" + opt
            ev["layers"]["A_native_simomp_" + opt] = agg
            total_runs += agg.get("runs", 0)
            log("[C07] layer A (%s): %d cases, %d simulated parallel runs, %d events, %d pre-emptive switches, %.1f s" %
                (opt, agg.get("cases", 0), agg.get("runs", 0), agg.get("events", 0), agg.get("switches", 0), wall))
            if viol is not None:
                case = parse_case(viol["case"])
                log("[C07] layer A violation (%s) at sub-seed %s; confirming and minimising ..." % (case.get("violation"), case.get("subseed")))
                ex, _, _ = native_run(cache, opt, "replay", case, outdir, "confirm")
                if ex != 1:
                    # The case alone, replayed from its own trace in a fresh process, is clean: the deviation needs what earlier
                    # cases of the batch left behind in the process (state that survives between calls of the routines).  The
                    # batch, re-generated from its start in a fresh driver process, is then the replay unit.
                    again = layerA_task(cache, opt, seed, viol["frm"], viol["count"], outdir, "confirm-batch", 600)
                    if again["exit"] != 1:
                        raise core.HarnessError("native violation reproduces neither from its own trace (exit %s) nor from its batch" % ex)
                    rep = {"layer": "A", "opt": opt, "batch": [seed, viol["frm"], viol["count"]], "property": PROP, "violation": case.get("violation"),
                           "case_as_found": case, "note": "reproduces only when the earlier cases of its batch ran in the same process (state surviving between calls)",
                           "how_to_replay": "./check C07 --replay <this file>"}
                    path = core.save_replay(PROP, "A-%s-%s-batch" % (seed, case.get("subseed")), rep)
                    log("[C07] layer A violation reproduces only inside its batch: the batch is the replay unit")
                    new_violations.append(path)
                    samples.append({"layer": "A", "violating_case": case.get("fnname"), "class": case.get("violation")})
                    continue
                small = minimise_native(cache, opt, case, outdir, case.get("violation"), log)
                small["opt"] = opt
                small["layer"] = "A"
                small["property"] = PROP
                small["how_to_replay"] = "./check C07 --replay <this file>"
                path = core.save_replay(PROP, "A-%s-%s" % (seed, case.get("subseed")), small)
                ex, _, _ = native_run(cache, opt, "replay", small, outdir, "confirm2")
                if ex != 1:
                    raise core.HarnessError("minimised native replay does not reproduce")
                new_violations.append(path)
                samples.append({"layer": "A", "violating_case": small.get("fnname"), "class": small.get("violation")})
        # ---------------- layers B, C ----------------
        for layer in ("B", "C"):
            ncases = cfg[layer]
            if not ncases:
                continue
            per = 1000 if layer == "B" else 200
            pdir = os.path.join(outdir, "progress")
            os.makedirs(pdir, exist_ok=True)
            tasks = [(cache, layer, seed, f, min(per, ncases - f), os.path.join(pdir, "%s%d" % (layer, f))) for f in range(0, ncases, per)]
            done, wall = core.fanout_isolated("sim.props.c07", "py_batch_entry", tasks, task_wall=1800,
                                              stop_when=lambda r: "crashed" in r or bool(r["violations"]))
            agg = {"runs": 0, "skipped_serial_raised": 0, "events": 0, "crashed_workers": 0}
            cnt = {}
            dig = []
            viols = []
            for t, r in done:
                if "crashed" in r:
                    # the code under test killed the worker: attribute it to the case in flight
                    agg["crashed_workers"] += 1
                    try:
                        with open(t[5]) as pf:
                            idx = int(pf.read().strip())
                    except (OSError, ValueError):
                        idx = t[3]
                    if r["crashed"] == -999:
                        raise core.HarnessError("python-layer worker exceeded its wall-clock limit: " + r["stderr"])
                    cc = gen_py_case(core.Rng(core.derive(seed, "C07", layer, idx)), layer)
                    rr = run_case_iso(cc, want_trace=False)
                    if rr["outcome"] == "violation":
                        viols.append({"index": idx, "vclass": rr["vclass"], "detail": rr.get("detail"), "case": cc})
                    elif rr["outcome"] == "skip" and rr.get("serial_exc") == "crash" and new_violations:
                        log("[C07] INFO: the SERIAL twin crashes the process on generated case %s/%d (memory damage by the code under test, not a schedule "
                            "dependence); the violations found so far are reported" % (layer, idx))
                    elif rr["outcome"] == "skip" and rr.get("serial_exc") == "crash":
                        raise core.HarnessError("the SERIAL twin crashes the process on generated case %s/%d (%s): not a C07 matter, but the check cannot continue: %s"
                                                % (layer, idx, json.dumps(cc)[:400], rr.get("detail")))
                    else:
                        # not attributable to a single case (delayed effect of earlier memory corruption): the batch is the replay unit
                        viols.append({"index": t[3], "vclass": "crash-in-batch", "detail": r["stderr"][-300:],
                                      "case": {"layer": layer, "batch": [seed, t[3], t[4]], "series": [], "kwargs": {}, "use_c": True, "ndim": False}})
                    continue
                agg["runs"] += r["runs"]; agg["skipped_serial_raised"] += r["skipped"]; agg["events"] += r["events"]
                for k, v in r["counters"].items():
                    cnt[k] = cnt.get(k, 0) + v
                for h in r["hashes"]:
                    all_hashes.add((layer, h))
                dig.append([t[3], r["digest"]])
                viols.extend(r["violations"])
                if len([x for x in samples if x.get("layer") == layer]) < 2:
                    samples.extend(r["samples"][:1])
            agg["counters"] = dict(sorted(cnt.items()))
            agg["wall_s"] = round(wall, 2)
            agg["runs_per_hour"] = int(agg["runs"] / max(wall, 1e-6) * 3600)
            agg["batch_digest"] = core.hash_obj(dig)
            name = "B_python_cython_simomp" if layer == "B" else "C_multiprocessing_simpool"
            ev["layers"][name] = agg
            total_runs += agg["runs"]
            log("[C07] layer %s: %d runs (%d skipped: serial raised), %.1f s" % (layer, agg["runs"], agg["skipped_serial_raised"], wall))
            seen_sig = set()
            for v in sorted(viols, key=lambda v: (v["vclass"].startswith("crash"), v["index"])):
                sig = py_signature(v["case"], v["vclass"])
                if sig in seen_sig:
                    continue
                seen_sig.add(sig)
                if v["vclass"] == "crash-in-batch":
                    small = v["case"]
                    if not batch_crashes(small):
                        if new_violations:
                            log("[C07] INFO: a worker died (memory corruption by the code under test) but not reproducibly; other violations are reported")
                            continue
                        raise core.HarnessError("a python-layer worker died but neither the case in flight nor the batch reproduces it: %s" % v.get("detail"))
                else:
                    if not py_replay_fails(v["case"], v["vclass"], tries=6):
                        if v["vclass"] == "crash" and new_violations:
                            log("[C07] INFO: a crash of the parallel run did not reproduce in a fresh process; other violations are reported")
                            continue
                        # seen by the batch worker only: kept as found; _save_confirmed retries it in up to 40 fresh processes
                        small = v["case"]
                    else:
                        # a crash of the parallel run depends on the real heap layout: keep the case as found
                        small = v["case"] if v["vclass"] == "crash" else minimise_py(v["case"], v["vclass"], log)
                sig = py_signature(small, v["vclass"])
                small.update({"property": PROP, "violation": v["vclass"], "signature": sig, "detail": v.get("detail")})
                k = core.match_known(known, sig)
                if k is not None:
                    known_hits.append(k)
                    continue
                path = _save_confirmed(layer, seed, v, small, log)
                new_violations.append(path)
        # ---------------- layer C, fork-backed cross-validation ----------------
        if cfg["C_fork"]:
            _import_pkg(cache)
            per = 100
            tasks = [(seed, f, min(per, cfg["C_fork"] - f)) for f in range(0, cfg["C_fork"], per)]
            done, wall = core.fanout(fork_batch, tasks, task_wall=1800, total_wall=3600)
            agg = {"runs": sum(r["runs"] for _, r in done), "skipped": sum(r["skipped"] for _, r in done), "wall_s": round(wall, 2)}
            ev["layers"]["C_fork_backed_crosscheck"] = agg
            total_runs += agg["runs"]
            for _, r in done:
                for v in r["violations"]:
                    sig = py_signature(v["case"], v["vclass"]) + "/fork"
                    small = v["case"]; small.update({"property": PROP, "violation": v["vclass"], "signature": sig})
                    k = core.match_known(known, py_signature(v["case"], v["vclass"]))
                    if k is not None:
                        known_hits.append(k)
                        continue
                    new_violations.append(core.save_replay(PROP, "Cfork-%s-%s" % (seed, v["index"]), small))
    finally:
        shutil.rmtree(outdir, ignore_errors=True)
    wall = time.time() - t_start
    if not samples:
        samples = [{"note": "no sample recorded"}]
    coverage = {
        "evaluations": int(total_runs),
        "distinct_nontrivial": len(all_hashes),
        "rule": "one evaluation = one simulated parallel execution compared with its serial twin. Counted as non-trivial and distinct: "
                "distinct hashes of the decision trace (chunk hand-outs + (event#, thread) switches; for simpool: workers/batch assignment/completion order) "
                "of runs in which >= 2 simulated threads executed repository code and >= 1 pre-emptive switch happened (layers A, B), or "
                ">= 2 batches completed out of order (layer C).",
        "samples": samples[:6],
        "layers": ev["layers"],
        "simulated_time": "n/a - executions are ordered by event sequence number; the repository has no timers on this path",
        "components": {
            "real": ["dd_dtw_openmp.c (incl. compiler-outlined parallel regions)", "dd_dtw.c", "dd_ed.c", "dtw_cc_omp.pyx", "dtw_cc.pyx", "dtw.py", "dtw_ndim.py", "util.py"],
            "stub": ["OpenMP runtime library -> /verif/native/simomp.c (ucontext coroutines, seeded scheduler)",
                     "multiprocessing.Pool -> /verif/sim/simpool.py (in-process; fork-backed variant in the thorough tier)",
                     "malloc/free inside parallel regions -> deterministic arena with red zones"],
        },
        "known_findings_matched": sorted({k["id"] for k in known_hits}),
    }
    core.write_evidence(PROP, tier, seed, coverage, wall, len(new_violations),
                        ["clang's lowering of the OpenMP pragmas at -O0 (and -O1 in the thorough tier) under sequential consistency stands for the shipped gcc/libgomp build",
                         "in-process simpool shares module globals between 'workers' (worker functions touch none; fork-backed cross-check in the thorough tier)",
                         "bounds: mostly <= 9 series of length <= 10 (one case in 24-32: 10..21 series of length <= 20), ndim <= 3, threads <= 64, pool workers <= 17"])
    core.report_and_exit(PROP, new_violations, known_hits)


def _fresh_replay(path):
    p = subprocess.run([sys.executable, os.path.join(core.VERIF, "sim", "main.py"), PROP, "--replay", path], capture_output=True, text=True, timeout=1800)
    return p.returncode, p.stdout[-1000:] + p.stderr[-1000:]


def _save_confirmed(layer, seed, v, small, log):
    """Save the replay file and confirm it in a fresh interpreter.  A violation that stems from the code under test reading
    memory it does not own (freed, uninitialised, in front of a buffer) is a fact about the repository but need not show in
    every process: such a file is marked "nondeterministic" and its replay retries in fresh processes."""
    name = "%s-%s-%s" % (layer, seed, v["index"])
    for attempt, cand in enumerate((small, v["case"])):
        cand = dict(cand)
        cand.pop("nondeterministic", None)
        cand.update({"property": PROP, "violation": v["vclass"], "signature": small["signature"], "detail": v.get("detail")})
        path = core.save_replay(PROP, name, cand)
        rc, out = _fresh_replay(path)
        if rc == 1:
            return path
        cand["nondeterministic"] = 40
        cand["note"] = ("the violation depends on memory the code under test does not own (heap garbage): it was observed in the "
                        "run and reproduces in some fresh processes only; replay retries up to 40 times")
        path = core.save_replay(PROP, name, cand)
        rc, out = _fresh_replay(path)
        if rc == 1:
            log("[C07] %s reproduces in some fresh processes only (heap-content dependent): replay file marked nondeterministic" % name)
            return path
    # Last resort: the batch the violation was seen in, re-run from its start (the case alone does not show it because the
    # deviation needs what earlier cases of the batch did to the process - heap damage by the code under test).
    per = 1000 if layer == "B" else 200
    frm = (v["index"] // per) * per
    cand = {"layer": layer, "batch": [seed, frm, per], "series": [], "kwargs": {}, "use_c": True, "ndim": False, "property": PROP,
            "violation": v["vclass"], "signature": small["signature"], "detail": v.get("detail"), "case_in_batch": v["index"],
            "note": "the violation shows only after the earlier cases of its batch ran in the same process; the batch is the replay unit"}
    path = core.save_replay(PROP, name, cand)
    rc, out2 = _fresh_replay(path)
    if rc == 1:
        log("[C07] %s reproduces only inside its batch: the batch is the replay unit" % name)
        return path
    # The unchanged tree is deterministic (self-test), so a mismatch that a batch worker observed between the serial and the parallel
    # result of one call, and that no fresh process shows again, means the code under test itself behaves nondeterministically
    # (typically: it depends on the addresses the allocator hands out).  The observation is reported as it was seen; its replay
    # file re-tries the case and the batch.
    cand = dict(v["case"])
    cand.update({"property": PROP, "violation": v["vclass"], "signature": small["signature"], "detail": v.get("detail"), "nondeterministic": 40,
                 "batch_of_observation": [seed, frm, per], "case_in_batch": v["index"],
                 "note": "observed by a batch worker (serial vs parallel result of this call differed); not reproduced in fresh processes: "
                         "the code under test depends on process state such as allocator addresses; replay re-tries"})
    path = core.save_replay(PROP, name + "-nondeterministic", cand)
    log("[C07] %s was observed once but does not reproduce in fresh processes (nondeterministic code under test): %s" % (name, path))
    return path


def replay(path, log=print):
    cache = build.ensure_build()
    with open(path) as f:
        c = json.load(f)
    if c.get("layer") == "A" and "batch" in c:
        outdir = _scratch_dir("c07r")
        try:
            seed, frm, count = c["batch"]
            r = layerA_task(cache, c.get("opt", "O0"), seed, frm, count, outdir, "replay-batch", 600)
        finally:
            shutil.rmtree(outdir, ignore_errors=True)
        if r["exit"] == 1:
            print("VIOLATION property=%s replay=%s (batch replay)" % (PROP, path))
            sys.exit(1)
        print("OK replay passes")
        sys.exit(0)
    if c.get("layer") == "A":
        outdir = _scratch_dir("c07r")
        try:
            ex, summ, ctext = native_run(cache, c.get("opt", "O0"), "replay", c, outdir, "replay")
        finally:
            shutil.rmtree(outdir, ignore_errors=True)
        if ex == 1:
            print("VIOLATION property=%s replay=%s" % (PROP, path))
            sys.exit(1)
        if ex != 0:
            print("HARNESS-ERROR: replay exit %s" % ex)
            sys.exit(2)
        print("OK replay passes")
        sys.exit(0)
    global _CACHE
    _CACHE = cache
    if "batch" in c:
        if batch_crashes(c):
            print("VIOLATION property=%s replay=%s class=crash-in-batch" % (PROP, path))
            sys.exit(1)
        print("OK replay passes")
        sys.exit(0)
    for k in range(max(1, int(c.get("nondeterministic", 1)))):
        r = run_case_iso(c)
        if r["outcome"] == "violation":
            print("VIOLATION property=%s replay=%s class=%s %s" % (PROP, path, r["vclass"], r.get("detail", "")))
            sys.exit(1)
    print("OK replay passes (%s)" % r["outcome"])
    sys.exit(0)
