"""C13 — subsequence alignment: matching function, k-best iterator, repeated / interleaved iteration
(DESIGN.md §4, C13).

System under simulation (all real): SubsequenceAlignment, SAMatch, dtw.warping_paths(_fast),
dtw_ndim.warping_paths(_fast), dtw.best_path.  2-4 client sessions share ONE alignment object; the
seeded scheduler interleaves their calls, every next() of every result generator and every late
read of a lazy SAMatch attribute.
"""
import copy
import math

from .. import core, sessions
from ..models import dtw_ref

PROP = "C13"
TIERS = {"quick": 64000, "thorough": 3200000}
BATCH = 250
HISTORY_WALL = 60
NO_MINIMISE = {"hang"}
RULE = ("one evaluation = one generated history (2-4 client sessions, up to 40 ops: align / align_fast / reset / open a k-best, best_matches or "
        "knee stream / next / close / best_match / get_match / late reads of SAMatch.value/.distance/.segment/.path / matching_function) on one shared "
        "SubsequenceAlignment object; oracles: brute-force matching function, path/segment validity and cost, per-stream invariants, and equality "
        "of every stream with the same stream run alone on a fresh object. Distinct = distinct (op kind, session) sequences; non-trivial = "
        "at least two sessions alternate at least twice.")
COMPONENTS = {"real": ["subsequence/subsequencealignment.py (SubsequenceAlignment, SAMatch, generators)", "dtw.warping_paths / warping_paths_fast",
                       "dtw_ndim.warping_paths(_fast)", "dtw.best_path", "C engine when use_c"],
              "stub": ["client sessions and their interleaving (seeded scheduler)", "reference model: brute-force subsequence DTW in /verif/sim/models/dtw_ref.py"]}
ASSUMPTIONS = ["query and series are handed over as contiguous arrays or (independently, three times in seven each) as strided / reversed / Fortran-ordered views of the same numbers",
               "bounds: mostly query length 1..6 and series length 1..12 (one history in 12: query 1..12, series 13..48, up to ~60 ops; a third of all series are plateau-rich), ndim 1..2",
               "index/segment comparisons against the fresh twin are skipped when the matching function has near-ties (< 1e-7); values use rel. tol 1e-9"]
TOL = 1e-9


def gen_history(st):
    rng = st("workload")
    ndim = rng.below(6) == 0
    grid = rng.below(3)

    def val():
        if grid == 0:
            return float(rng.below(4))
        if grid == 1:
            return (rng.below(9) - 4) * 0.5
        return round(rng.uniform(-3, 3), 2)

    def series(L):
        if ndim:
            return [[val(), val()] for _ in range(L)]
        return [val() for _ in range(L)]

    big = rng.below(12) == 0         # swarm sizing: one history in 12 uses long inputs
    lq = 1 + rng.below(12) if big else 1 + rng.below(6)          # long series also with SHORT queries (far end points, stretched matches)
    ls = 13 + rng.below(36) if big else 1 + rng.below(12)
    query = series(lq)
    ser = series(ls)
    if rng.below(3) == 0:
        # plateau-rich series: values repeated in runs, so that optimal alignments stretch over many samples
        out = []
        while len(out) < ls:
            v = series(1)[0]
            out.extend([copy.deepcopy(v) for _ in range(1 + rng.below(8 if big else 3))])
        ser = out[:ls]
    if rng.below(3) == 0 and ls >= lq:
        # plant the query (so that exact matches and repeats exist)
        at = rng.below(ls - lq + 1)
        ser[at:at + lq] = copy.deepcopy(query)
    setup = {"query": query, "series": ser, "ndim": ndim, "penalty": rng.choice([0.0, 0.1, 0.1, 0.5, 2.0]), "use_c": bool(rng.below(2)),
             # memory layout of the two arrays handed to the library: the same numbers as contiguous arrays (two histories in three)
             # or as non-contiguous views (every second element of a larger array, a reversed view, Fortran order for multivariate data)
             "layout": [rng.choice(["c", "c", "c", "c", "strided", "reversed", "fortran"]) for _ in range(2)]}
    brng = st("refill")      # a stream of its own: the second content of the series buffer does not shift the rest of the workload
    def _alt(v):
        return [_alt(x) for x in v] if isinstance(v, list) else (float(brng.below(4)) if grid == 0 else ((brng.below(9) - 4) * 0.5 if grid == 1 else round(brng.uniform(-3, 3), 2)))
    setup["series_b"] = _alt(ser)
    nsess = 2 + rng.below(3)
    programs = [[] for _ in range(nsess)]
    sid = 0
    mid = 0
    # somebody aligns early, usually
    if rng.below(5):
        programs[rng.below(nsess)].append({"op": "align", "fast": rng.below(4) == 0})
    for s in range(nsess):
        my_streams = []
        for _ in range((6 + rng.below(14)) if big else (2 + rng.below(9))):
            k = rng.below(20)
            if k < 5 or (not my_streams and k < 10):
                kind = rng.choice(["kbest", "kbest", "kbest", "kbest_fast", "best_matches", "best_matches_fast", "knee"])
                o = {"op": "open", "stream": sid, "kind": kind, "overlap": rng.choice([0, 0, 0, 1, 2, 5] + ([8, 12] if big else [])),
                     "minlength": rng.choice([2, 2, 1, 3, None] + ([6, 10] if big else [])), "maxlength": rng.choice([None, None, None, lq, lq + 1, 2 * lq])}
                if kind.startswith("kbest"):
                    o["k"] = rng.choice([1, 2, 3, 5, None] + ([8, 12, None] if big else []))
                elif kind.startswith("best_matches"):
                    o["factor"] = rng.choice([1.0, 1.5, 2, 4])
                else:
                    o["alpha"] = rng.choice([0.3, 0.5])
                programs[s].append(o)
                my_streams.append(sid)
                sid += 1
            elif k < 12:
                if my_streams:
                    programs[s].append({"op": "next", "stream": rng.choice(my_streams), "match": mid}); mid += 1
            elif k < 13:
                if my_streams:
                    programs[s].append({"op": "close", "stream": rng.choice(my_streams)})
            elif k < 14:
                programs[s].append({"op": "best_match", "fast": rng.below(4) == 0, "match": mid}); mid += 1
            elif k < 15:
                programs[s].append({"op": "get_match", "idx": rng.below(ls), "match": mid}); mid += 1
            elif k < 16:
                programs[s].append({"op": "align", "fast": rng.below(3) == 0})
            elif k < 17:
                programs[s].append({"op": "reset"} if rng.below(3) else {"op": "refill"})
            elif k < 18:
                programs[s].append({"op": "mf"})
            else:
                if mid:
                    programs[s].append({"op": "read", "match": rng.below(mid), "attr": rng.choice(["value", "distance", "segment", "path"])})
    ops = sessions.interleave(st("sessions"), programs)
    return {"setup": setup, "ops": ops}


# ---------------------------------------------------------------------------------------------- helpers

def close(a, b):
    if math.isinf(a) or math.isinf(b):
        return a == b
    return abs(a - b) <= TOL * max(1.0, abs(a), abs(b))


def _mk(setup):
    import numpy as np
    from dtaidistance.subsequence.subsequencealignment import SubsequenceAlignment
    lay = setup.get("layout", ["c", "c"])
    q = _layout(np.array(setup["query"], dtype=np.double), lay[0])
    s = _layout(np.array(setup["series"], dtype=np.double), lay[1])
    sa = SubsequenceAlignment(q, s, penalty=setup["penalty"], use_c=setup["use_c"])
    _LIVE["series"] = s       # the caller's own array (the harness is the caller): refilled in place by the 'refill' op
    return sa


_LIVE = {"series": None}


def _layout(a, kind):
    import numpy as np
    if kind == "fortran" and a.ndim == 2:
        return np.asfortranarray(a)
    if kind in ("strided", "fortran"):
        base = np.full((2 * a.shape[0],) + a.shape[1:], 7.75)
        base[::2] = a
        return base[::2]
    if kind == "reversed":
        return np.ascontiguousarray(a[::-1])[::-1]
    return a


def _open(sa, o):
    kw = {"overlap": o["overlap"], "minlength": o["minlength"], "maxlength": o["maxlength"]}
    kind = o["kind"]
    if kind == "kbest":
        return sa.kbest_matches(k=o["k"], **kw)
    if kind == "kbest_fast":
        return sa.kbest_matches_fast(k=o["k"], **kw)
    if kind == "best_matches":
        return sa.best_matches(max_rangefactor=o["factor"], **kw)
    if kind == "best_matches_fast":
        return sa.best_matches_fast(max_rangefactor=o["factor"], **kw)
    return sa.best_matches_knee(alpha=o["alpha"], **kw)


def check_match(setup, model_mf, idx, value, segment, path, ctx):
    """Validity of one match against the reference model."""
    q, s, nd, pen = setup["query"], setup["series"], setup["ndim"], setup["penalty"]
    lq, ls = len(q), len(s)
    if not (0 <= idx < ls):
        return {"class": "match-index", "detail": "%s: match index %r outside the series" % (ctx, idx)}
    if not close(value, model_mf[idx]):
        return {"class": "match-value", "detail": "%s: match at end point %d has value %r, brute force gives %r" % (ctx, idx, value, model_mf[idx])}
    if segment is not None:
        b, e = segment
        if not (0 <= b <= e < ls) or e != idx:
            return {"class": "segment", "detail": "%s: segment %r for end point %d" % (ctx, segment, idx)}
    if path is not None:
        if not path:
            return {"class": "path", "detail": "%s: empty path" % ctx}
        pts = [(int(i), int(j)) for i, j in path]
        if pts[0][0] != 0 or pts[-1] != (lq - 1, idx):
            return {"class": "path", "detail": "%s: path runs %r..%r, expected row 0 .. (%d, %d)" % (ctx, pts[0], pts[-1], lq - 1, idx)}
        for (a, b2), (c, d) in zip(pts, pts[1:]):
            if (c - a, d - b2) not in ((1, 1), (1, 0), (0, 1)):
                return {"class": "path", "detail": "%s: illegal step %r -> %r" % (ctx, (a, b2), (c, d))}
        if any(not (0 <= j < ls) for _, j in pts):
            return {"class": "path", "detail": "%s: path leaves the series" % ctx}
        if segment is not None and pts[0][1] != segment[0]:
            return {"class": "segment", "detail": "%s: path starts in column %d, segment says %d" % (ctx, pts[0][1], segment[0])}
        cost = dtw_ref.path_cost(q, s, pts, penalty=pen, ndim=nd)
        dist2 = (value * lq) ** 2
        if abs(cost - dist2) > 1e-9 * max(1.0, abs(cost), abs(dist2)):
            return {"class": "path-cost", "detail": "%s: cost along the reported path is %r, reported distance^2 is %r" % (ctx, cost, dist2)}
    return None


def run_stream_alone(setup, o, n):
    """The same stream on a fresh alignment object, alone: first n items as (idx, value, segment)."""
    sa = _mk(setup)
    out = []
    try:
        g = _open(sa, o)
        for _ in range(n):
            try:
                m = next(g)
            except StopIteration:
                out.append("stop")
                break
            out.append((int(m.idx), float(m.value), [int(x) for x in m.segment]))
    except Exception as exc:  # noqa
        out.append("exc:" + type(exc).__name__)
    return out


def execute(history):
    import numpy as np
    setup = history["setup"]
    q, s, nd, pen = setup["query"], setup["series"], setup["ndim"], setup["penalty"]
    lq, ls = len(q), len(s)
    if ls <= 12:
        model_mf, _ = dtw_ref.subsequence_matching(q, s, penalty=pen, ndim=nd)
        alt = dtw_ref.subsequence_matching_free_start(q, s, penalty=pen, ndim=nd)
        if any(not close(a, b) for a, b in zip(model_mf, alt)):
            raise core.HarnessError("reference models disagree: brute force %r vs free-start DP %r" % (model_mf, alt))
    else:
        model_mf = dtw_ref.subsequence_matching_free_start(q, s, penalty=pen, ndim=nd)
    fin = sorted(v for v in model_mf if v < math.inf)
    near_tie = any(b - a < 1e-7 for a, b in zip(fin, fin[1:]))
    sa = _mk(setup)
    live_series = _LIVE["series"]
    streams, matches = {}, {}
    viols = []
    cnt = {}
    obs = []

    def bump(k, v=1):
        cnt[k] = cnt.get(k, 0) + v

    def add(v, opi):
        if v is not None:
            v["op"] = opi
            viols.append(v)

    for opi, op in enumerate(history["ops"]):
        kind = op["op"]
        try:
            if kind == "align":
                (sa.align_fast if op.get("fast") else sa.align)()
                bump("op:align" + (":fast" if op.get("fast") else ""))
                mf = sa.matching_function()
                if len(mf) != ls or any(not close(float(a), b) for a, b in zip(mf, model_mf)):
                    add({"class": "matching-function", "detail": "after align: matching function %r, brute force %r" % ([float(x) for x in mf][:8], model_mf[:8])}, opi)
            elif kind == "reset":
                sa.reset()
                bump("op:reset")
                # reset() drops the computed alignment: generators and matches handed out before it are void by
                # contract (they dereference the dropped state); only what is opened afterwards is checked
                for st in streams.values():
                    if not st["done"]:
                        st["done"] = True
                        bump("streams_voided_by_reset")
                for mm in matches.values():
                    mm["void"] = True
            elif kind == "refill":
                # The caller overwrites its series buffer IN PLACE with other numbers (same length) and resets the object: from
                # here on everything is judged against the new content.  Generators and matches from before are void, as after reset().
                if "series_b" not in setup or len(setup["series_b"]) != ls:
                    continue
                live_series[...] = np.array(setup["series_b"], dtype=np.double)
                sa.reset()
                bump("op:refill_in_place_and_reset")
                setup = dict(setup, series=setup["series_b"], series_b=setup["series"])
                s = setup["series"]
                if ls <= 12:
                    model_mf, _ = dtw_ref.subsequence_matching(q, s, penalty=pen, ndim=nd)
                else:
                    model_mf = dtw_ref.subsequence_matching_free_start(q, s, penalty=pen, ndim=nd)
                fin = sorted(v for v in model_mf if v < math.inf)
                near_tie = any(b - a < 1e-7 for a, b in zip(fin, fin[1:]))
                for st in streams.values():
                    if not st["done"]:
                        st["done"] = True
                        bump("streams_voided_by_reset")
                for mm in matches.values():
                    mm["void"] = True
            elif kind == "mf":
                mf = sa.matching_function()
                obs.append([opi, None if mf is None else [core.fbits(x) for x in mf]])
                bump("op:matching_function")
                if mf is not None:
                    if len(mf) != ls or any(not close(float(a), b) for a, b in zip(mf, model_mf)):
                        add({"class": "matching-function", "detail": "matching_function() = %r, brute force %r" % ([float(x) for x in mf][:8], model_mf[:8])}, opi)
            elif kind == "open":
                streams[op["stream"]] = {"gen": _open(sa, op), "spec": op, "items": [], "done": False, "sessions": {op.get("s")}}
                bump("op:open:" + op["kind"])
            elif kind == "next":
                st = streams.get(op["stream"])
                if st is None or st["done"]:
                    bump("skipped_next")
                    continue
                other_between = st.get("last_op") is not None and any(o2.get("s") != op.get("s") for o2 in history["ops"][st["last_op"] + 1:opi])
                if other_between:
                    bump("fault:generator_resumed_after_other_sessions_ran")
                st["last_op"] = opi
                try:
                    m = next(st["gen"])
                except StopIteration:
                    st["done"] = True
                    st["items"].append("stop")
                    bump("stream_exhausted")
                else:
                    bump("op:next")
                    idx, seg = int(m.idx), [int(x) for x in m.segment]
                    if sa.matching is None:
                        # somebody reset() the object while this stream is live: the match cannot be valued until the
                        # next align(); the stream itself (which end points, which segments) must not be disturbed
                        bump("fault:next_while_object_reset")
                        st["items"].append((idx, None, seg))
                        matches[op["match"]] = {"m": m, "idx": idx, "value": None, "segment": seg, "op": opi}
                        alone = run_stream_alone(setup, st["spec"], len(st["items"]))
                        if len(alone) != len(st["items"]) or (not near_tie and not isinstance(alone[-1], str) and (alone[-1][0] != idx or alone[-1][2] != seg)):
                            add({"class": "interleaving-dependence", "detail": "stream %s yields %r here, %r when run alone on a fresh object" % (st["spec"]["kind"], st["items"][-3:], alone[-3:])}, opi)
                        continue
                    value = float(m.value)
                    st["items"].append((idx, value, seg))
                    obs.append([opi, idx, core.fbits(value), seg, [list(map(int, t)) for t in m.path]])
                    matches[op["match"]] = {"m": m, "idx": idx, "value": value, "segment": seg, "op": opi}
                    spec = st["spec"]
                    add(check_match(setup, model_mf, idx, value, seg, m.path, "stream %s item %d" % (spec["kind"], len(st["items"]))), opi)
                    # stream invariants over the history of this stream
                    prev = [it for it in st["items"][:-1] if it != "stop"]
                    if any(p[0] == idx for p in prev):
                        add({"class": "stream-duplicate-endpoint", "detail": "end point %d yielded twice by one stream" % idx}, opi)
                    if prev and prev[-1][1] is not None and value < prev[-1][1] - TOL * max(1.0, abs(value)):
                        add({"class": "stream-order", "detail": "value %r after %r" % (value, prev[-1][1])}, opi)
                    length = seg[1] - seg[0] + 1
                    if (spec["minlength"] is not None and length < spec["minlength"]) or (spec["maxlength"] is not None and length > spec["maxlength"]):
                        add({"class": "stream-length", "detail": "segment %r has length %d outside [%s, %s]" % (seg, length, spec["minlength"], spec["maxlength"])}, opi)
                    if spec["overlap"] == 0:
                        for p in prev:
                            lo, hi = max(p[2][0], seg[0]), min(p[2][1], seg[1])
                            if hi - lo + 1 > 1:
                                add({"class": "stream-overlap", "detail": "segments %r and %r share %d samples with overlap=0" % (p[2], seg, hi - lo + 1)}, opi)
                                break
                    if spec["kind"].startswith("kbest") and spec.get("k") is not None and len([i for i in st["items"] if i != "stop"]) > spec["k"]:
                        add({"class": "stream-count", "detail": "more than k=%d matches" % spec["k"]}, opi)
                # interleaving independence: same stream alone on a fresh object
                alone = run_stream_alone(setup, st["spec"], len(st["items"]))
                got = st["items"]
                bad = len(alone) != len(got)
                if not bad:
                    for a, g in zip(alone, got):
                        if isinstance(a, str) or isinstance(g, str):
                            bad = bad or a != g
                        elif (g[1] is not None and not close(a[1], g[1])) or (not near_tie and (a[0] != g[0] or a[2] != g[2])):
                            bad = True
                if bad:
                    add({"class": "interleaving-dependence", "detail": "stream %s yields %r here, %r when run alone on a fresh object" % (st["spec"]["kind"], got[-3:], alone[-3:])}, opi)
            elif kind == "close":
                st = streams.get(op["stream"])
                if st is not None and not st["done"]:
                    st["gen"].close()
                    st["done"] = True
                    bump("fault:generator_abandoned")
            elif kind in ("best_match", "get_match"):
                if sa.matching is None:
                    bump("skipped_not_aligned")
                    continue
                if kind == "best_match":
                    m = sa.best_match_fast() if op.get("fast") else sa.best_match()
                    bump("op:best_match")
                    if not close(float(m.value), min(model_mf)):
                        add({"class": "best-match", "detail": "best_match value %r, brute-force minimum %r" % (float(m.value), min(model_mf))}, opi)
                else:
                    if op["idx"] >= ls:
                        continue
                    m = sa.get_match(op["idx"])
                    bump("op:get_match")
                idx, value = int(m.idx), float(m.value)
                matches[op["match"]] = {"m": m, "idx": idx, "value": value, "segment": None, "op": opi}
                if math.isinf(model_mf[idx]):
                    continue
                add(check_match(setup, model_mf, idx, value, [int(x) for x in m.segment], m.path, kind), opi)
            elif kind == "read":
                mm = matches.get(op["match"])
                if mm is None or mm.get("void"):
                    bump("skipped_read")
                    continue
                if sa.matching is None:
                    bump("late_read_after_reset_ignored")
                    continue
                late = any(o2["op"] in ("next", "open", "reset", "align", "close") for o2 in history["ops"][mm["op"] + 1:opi])
                if late:
                    bump("fault:lazy_match_read_late")
                m = mm["m"]
                attr = op["attr"]
                bump("op:read:" + attr)
                if attr == "value":
                    if not close(float(m.value), model_mf[mm["idx"]]):
                        add({"class": "late-read", "detail": "match %d .value = %r, brute force %r" % (mm["idx"], float(m.value), model_mf[mm["idx"]])}, opi)
                elif attr == "distance":
                    if not close(float(m.distance), model_mf[mm["idx"]] * lq):
                        add({"class": "late-read", "detail": "match %d .distance = %r, brute force %r" % (mm["idx"], float(m.distance), model_mf[mm["idx"]] * lq)}, opi)
                elif not math.isinf(model_mf[mm["idx"]]):
                    seg = [int(x) for x in m.segment]
                    v = check_match(setup, model_mf, mm["idx"], float(m.value), seg, m.path if attr == "path" else None, "late read of ." + attr)
                    if v is None and mm["segment"] is not None and seg != mm["segment"]:
                        v = {"class": "late-read", "detail": "segment read late %r differs from the segment read at yield time %r" % (seg, mm["segment"])}
                    add(v, opi)
        except Exception as exc:  # noqa
            bump("raised:%s:%s" % (kind, type(exc).__name__))
            # would the same call raise on a fresh, aligned object?  If not, the history made it fail.
            if kind in ("next", "read", "best_match", "get_match", "mf", "align") and sa.matching is not None:
                add({"class": "exception", "detail": "%s raised %s: %s" % (kind, type(exc).__name__, str(exc)[:200])}, opi)
    return {"violations": viols[:4], "counters": cnt, "nontrivial": sessions.sessions_interleaved(history),
            "digest": core.hash_obj([obs, [[v["class"], v["op"]] for v in viols]])}


def signature(history, viol):
    ops = history["ops"]
    opi = viol.get("op")
    feats = []
    if opi is not None and opi < len(ops):
        op = ops[opi]
        feats.append(op["op"])
        if op["op"] == "next":
            spec = next((o for o in ops if o["op"] == "open" and o["stream"] == op["stream"]), None)
            if spec:
                feats.append(spec["kind"])
                if spec["overlap"]:
                    feats.append("overlap>0")
        if op["op"] == "read":
            feats.append(op["attr"])
    if history["setup"]["penalty"]:
        feats.append("penalty")
    if history["setup"]["ndim"]:
        feats.append("ndim")
    return "C13/%s/%s" % (viol["class"], "/".join(feats))


def shrink(h):
    setup = h["setup"]
    out = []

    def variant(**kw):
        s2 = copy.deepcopy(setup)
        s2.update(kw)
        return {"setup": s2, "ops": copy.deepcopy(h["ops"])}

    if len(setup["series"]) > 1:
        out.append(variant(series=setup["series"][:-1]))
        out.append(variant(series=setup["series"][1:]))
    if len(setup["query"]) > 1:
        out.append(variant(query=setup["query"][:-1]))
    if setup["penalty"]:
        out.append(variant(penalty=0.0))
    if setup["use_c"]:
        out.append(variant(use_c=False))
    lay = setup.get("layout", ["c", "c"])
    for k in range(2):
        if lay[k] != "c":
            out.append(variant(layout=[("c" if j == k else lay[j]) for j in range(2)]))
    if not setup["ndim"]:
        if any(x != round(x) for x in setup["query"] + setup["series"]):
            out.append(variant(query=[float(round(x)) for x in setup["query"]], series=[float(round(x)) for x in setup["series"]]))
    for i, op in enumerate(h["ops"]):
        if op["op"] == "open":
            for key, val in (("overlap", 0), ("minlength", 2), ("maxlength", None), ("kind", "kbest")):
                if op.get(key) != val:
                    ops = copy.deepcopy(h["ops"]); ops[i][key] = val
                    if key == "kind":
                        ops[i].setdefault("k", None)
                    out.append({"setup": copy.deepcopy(setup), "ops": ops})
        if op.get("fast"):
            ops = copy.deepcopy(h["ops"]); ops[i]["fast"] = False
            out.append({"setup": copy.deepcopy(setup), "ops": ops})
    if len({o.get("s") for o in h["ops"]}) > 1:
        ops = copy.deepcopy(h["ops"])
        for o in ops:
            o["s"] = 0
        out.append({"setup": copy.deepcopy(setup), "ops": ops})
    return out


def main(tier, seed):
    sessions.Runner("sim.props.c13").run(tier, seed)


def replay(path):
    sessions.Runner("sim.props.c13").replay(path)
