"""C18 — affinity matrix recurrence and local-concurrence matches under any sequence of kbest_matches
calls (DESIGN.md §4, C18).

System under simulation (all real): LocalConcurrences, LCMatch, LCMatches, dtw.warping_paths_affinity(_fast)
and, for use_c/compact instances, the C routines behind them.  Client sessions share ONE
LocalConcurrences object whose warping-paths matrix is mutated (cells negated) by every result
generator; the seeded scheduler interleaves generator steps, stores, abandons and resets.

Reference model: the documented recurrence (independent code) gives the true magnitude of every cell;
a set U of cells consumed since the mask was last reset.  Every yielded path must be contiguous,
monotone, inside the band, run through cells of positive magnitude only, end in the cell the match
names, have at least minlen cells and be disjoint from U.
"""
import copy
import math
import signal

from .. import core, sessions, layouts
from ..models import dtw_ref

PROP = "C18"
TIERS = {"quick": 32000, "thorough": 1600000}
BATCH = 250
RULE = ("one evaluation = one generated history (2-3 client sessions, up to 36 ops: align / reset / open a kbest_matches generator with "
        "k, minlen, buffer (<0, 0, >0), restart / next / abandon / kbest_matches_store(keep) / best_match / wp_slice / late re-read of matches handed out earlier / matrix comparison of the "
        "Python, C-full and C-compact engines) on one shared LocalConcurrences object. Distinct = distinct (op kind, session) sequences; "
        "non-trivial = at least two sessions alternate at least twice.")
COMPONENTS = {"real": ["subsequence/localconcurrences.py (LocalConcurrences, LCMatch, LCMatches, kbest_matches generator, best_path)",
                       "dtw.warping_paths_affinity (Python)", "dtw.warping_paths_affinity_fast full and compact (C: dtw_warping_paths_affinity, dtw_expand_wps_slice_affinity)",
                       "C: dtw_wps_max / negativize / positivize / best_path_affinity when a use_c instance can be constructed"],
              "stub": ["client sessions and their interleaving (seeded scheduler)", "reference model: affinity recurrence + consumed-cell set (sim/models/dtw_ref.py)"]}
ASSUMPTIONS = ["the two series are handed over as contiguous arrays or (independently, three times in seven each) as strided / reversed views of the same numbers",
               "bounds: mostly series length 2..10 (one history in 12: length 11..24, minlen up to 8, |buffer| up to 6, up to ~60 ops); values on a small grid so that equal stretches (real local concurrences) exist",
               "reset() is taken to void generators created before it (they keep working on the dropped matrix)", "use_c instances (full and compact) are driven through the same histories; where the C matrix is known not to equal the recurrence (window set, penalty outside {0,1}: known findings) the magnitude-based oracles are switched off for C instances and the structural ones (path shape, end cell, minlen, no reuse since reset, restart as fresh) remain",
               "'traced from a maximum' and 'the search ends only when no positive cell is left' are judged while every search since the last reset used buffer 0 and minlen <= 1 (one history in three is generated that way throughout): otherwise discarded short paths and buffer zones consume cells no caller sees",
               "a restart (restart=True at a generator's first next, kbest_matches_store(keep=False) returning) empties the model's consumed set: the model never demands reuse, it only forbids reuse since the last reset",
               "wp_slice(positivize=True) is not part of the generated histories (on the masked-array variant it rewrites the shared matrix through a view, turning -inf into +inf; the property does not speak of it)"]
TOL = 1e-9
OP_WALL = 8
NO_MINIMISE = {"hang"}


class OpTimeout(Exception):
    pass


def _alarm(signum, frame):
    raise OpTimeout()


def gen_history(st):
    rng = st("workload")
    grid = rng.below(2)

    def val():
        if grid == 0:
            return float(rng.below(4))
        return (rng.below(9) - 4) * 0.5

    big = rng.below(12) == 0          # swarm sizing: one history in 12 uses long series, larger minlen / buffer and more matches
    l1 = 11 + rng.below(14) if big else 2 + rng.below(9)
    s1 = [val() for _ in range(l1)]
    selfcmp = rng.below(3) == 0
    if selfcmp:
        s2 = None
        if l1 >= 6 and rng.below(2):
            # plant a repeated motif
            m = 2 + rng.below(2)
            a = rng.below(l1 - 2 * m + 1)
            b = a + m + rng.below(l1 - a - 2 * m + 1)
            s1[b:b + m] = s1[a:a + m]
    else:
        l2 = 11 + rng.below(14) if big else 2 + rng.below(9)
        s2 = [val() for _ in range(l2)]
        if rng.below(2) and l2 >= 3 and l1 >= 3:
            m = 2 + rng.below(min(l1, l2) - 1)
            a = rng.below(l1 - m + 1); b = rng.below(l2 - m + 1)
            s2[b:b + m] = s1[a:a + m]
    lm = max(l1, len(s2) if s2 is not None else l1)
    variant = rng.choice(["py", "py", "py", "c_full", "c_compact"])
    pen_choice = rng.choice([None, 0.0, 0.1, 0.5])
    win_choice = rng.choice([None, None, 1 + rng.below(lm), 1 + rng.below(lm)])
    if variant != "py" and rng.below(4):
        # the C matrix is known to differ from the recurrence with a window or a penalty outside {0, 1}: most C-variant
        # histories stay inside the region where it is exact, so that the C negativize / positivize / max / path routines get exercised
        pen_choice = rng.choice([None, 0.0, 1.0])
        win_choice = None
    gamma_choice = rng.choice([0.5, 1.0, 1.0, 2.0, 0.05, 10.0, 200.0])
    tau_choice = rng.choice([0.0, 0.3, 0.6, 0.9, 1.0])
    # tau exactly ON an affinity value is generated only where no rounding is involved: tau = 1.0 (equal values have affinity
    # exp(-0) = 1.0 in every libm) and tau = 0.0 with gamma = 200 (value differences >= 2 give exp(-800) = 0.0 everywhere, the
    # next smaller difference gives exp(-450), far from denormal).  There the strict "<" of the documented rule decides.  Any
    # other boundary would hinge on the last bit of exp(), which differs between math.exp, np.exp and the C library - a
    # rounding-width neighbourhood no oracle can pin, so it is not generated.
    setup = {"series1": s1, "series2": s2, "gamma": gamma_choice, "tau": tau_choice,
             "delta": rng.choice([0.0, -0.5, -1.0, -2.0]), "delta_factor": rng.choice([1.0, 0.5, 0.9]),
             "penalty": pen_choice, "window": win_choice,
             "only_triu": rng.choice([None, None, False, True]) if selfcmp else rng.choice([None, None, False, l1 == (len(s2)) and rng.below(2) == 0]),
             "variant": variant}
    lrng = st("layout")       # a stream of its own: the layouts do not shift the rest of the workload
    setup["layout"] = [lrng.choice(layouts.KINDS), lrng.choice(layouts.KINDS)]
    nsess = 2 + rng.below(2)
    programs = [[] for _ in range(nsess)]
    sid = 0
    programs[rng.below(nsess)].append({"op": "matrix"})
    if rng.below(3):
        programs[rng.below(nsess)].append({"op": "align"})
    for s in range(nsess):
        mine = []
        for _ in range((6 + rng.below(14)) if big else (2 + rng.below(8))):
            k = rng.below(20)
            if k < 5 or (not mine and k < 9):
                programs[s].append({"op": "open", "stream": sid, "k": rng.choice([1, 2, 3, None, None] + ([6, 10] if big else [])), "minlen": rng.choice([2, 2, 1, 3] + ([5, 8] if big else [])),
                                    "buffer": rng.choice([0, 0, 0, -1, 1, 2] + ([4, 6, -3] if big else [])), "restart": rng.below(3) != 0})
                mine.append(sid); sid += 1
            elif k < 13:
                if mine:
                    programs[s].append({"op": "next", "stream": rng.choice(mine)})
            elif k < 14:
                if mine:
                    programs[s].append({"op": "close", "stream": rng.choice(mine)})
            elif k < 16:
                programs[s].append({"op": "store", "k": rng.choice([1, 2, None]), "minlen": rng.choice([2, 1]), "buffer": rng.choice([0, 0, -1, 1]),
                                    "restart": rng.below(3) != 0, "keep": bool(rng.below(2))})
            elif k < 17:
                programs[s].append({"op": "reset"})
            elif k < 18:
                programs[s].append({"op": "align"})
            elif k < 19:
                programs[s].append({"op": "wp_slice"})
            else:
                programs[s].append({"op": "best_match"} if rng.below(2) else {"op": "reread", "which": rng.below(64)})
    if rng.below(3) == 0:
        # one history in three searches with buffer 0 and minlen 1 only: then nothing but the yielded paths consumes cells, and
        # "traced from a maximum" / "stops only when no positive cell is left" can be judged exactly
        for prog in programs:
            for o in prog:
                if o["op"] in ("open", "store"):
                    o["minlen"] = 1; o["buffer"] = 0
    ops = sessions.interleave(st("sessions"), programs)
    return {"setup": setup, "ops": ops}


# ---------------------------------------------------------------------------------------------- model

def model_matrix(setup, squared_penalty=False):
    """Recurrence with the library's border convention: [0][0] = 0, the rest of row 0 / column 0 and every
    excluded cell is -inf ("excluded").  Returns M[(r+1) x (c+1)]."""
    s1 = setup["series1"]
    s2 = setup["series2"] if setup["series2"] is not None else s1
    r, c = len(s1), len(s2)
    w = setup["window"] if setup["window"] else max(r, c)
    pen = setup["penalty"] or 0.0
    if squared_penalty:
        pen = pen * pen
    triu = eff_triu(setup)
    ninf = -math.inf
    M = [[ninf] * (c + 1) for _ in range(r + 1)]
    M[0][0] = 0.0
    for i in range(r):
        js = max(0, i - max(0, r - c) - w + 1)
        if triu:
            js = max(js, i)
        je = min(c, i + max(0, c - r) + w)
        for j in range(js, je):
            d = math.exp(-setup["gamma"] * (s1[i] - s2[j]) ** 2)
            prev = max(M[i][j], M[i][j + 1] - pen, M[i + 1][j] - pen)
            if d < setup["tau"]:
                v = max(0.0, setup["delta"] + setup["delta_factor"] * prev) if prev > ninf else 0.0
            else:
                v = max(0.0, d + prev) if prev > ninf else 0.0
            M[i + 1][j + 1] = v
    return M


def eff_triu(setup):
    if setup["series2"] is None:
        return True if setup["only_triu"] is None else bool(setup["only_triu"])
    return False if setup["only_triu"] is None else bool(setup["only_triu"])


def close(a, b):
    if math.isinf(a) or math.isinf(b):
        return a == b
    return abs(a - b) <= TOL * max(1.0, abs(a), abs(b))


def max_available(M, U):
    """Largest cell of the recurrence matrix that no match since the last reset has consumed: (value, (row, col)) in
    matrix coordinates, (0.0, None) if no positive cell is left."""
    best, cell = 0.0, None
    for i in range(1, len(M)):
        row = M[i]
        for j in range(1, len(row)):
            v = row[j]
            if v > best and (i - 1, j - 1) not in U:
                best, cell = v, (i, j)
    return best, cell


def check_from_max(m_rc, M, U, ctx):
    """'Matches traced from a maximum': with buffer 0 and minlen <= 1 nothing but the yielded paths consumes cells, so the
    cell a match is traced from must be a largest cell still available (ties: any of them)."""
    best, cell = max_available(M, U)
    v = M[m_rc[0]][m_rc[1]]
    if cell is not None and not (v >= best - TOL * max(1.0, best)):
        return {"class": "not-from-maximum", "detail": "%s: traced from cell %r (magnitude %r) although cell %r (magnitude %r) is still available" % (ctx, m_rc, v, cell, best)}
    return None


def check_exhausted(M, U, ctx):
    best, cell = max_available(M, U)
    if cell is not None and best > 1e-6:
        return {"class": "search-stops-early", "detail": "%s: the search ended although cell %r (magnitude %r) is still available" % (ctx, cell, best)}
    return None


def check_path(path, end_rc, M, U, minlen, ctx, check_disjoint=True, shape=None):
    if M is None:
        r1, c1 = shape
    else:
        r1, c1 = len(M) - 1, len(M[0]) - 1
    pts = [(int(a), int(b)) for a, b in path]
    if not pts:
        return {"class": "path-empty", "detail": "%s: empty path" % ctx}
    if end_rc is not None and pts[-1] != (end_rc[0] - 1, end_rc[1] - 1):
        return {"class": "path-end", "detail": "%s: path ends at %r, match names cell %r" % (ctx, pts[-1], (end_rc[0] - 1, end_rc[1] - 1))}
    for (a, b), (c, d) in zip(pts, pts[1:]):
        if (c - a, d - b) not in ((1, 1), (1, 0), (0, 1)):
            return {"class": "path-step", "detail": "%s: illegal step %r -> %r" % (ctx, (a, b), (c, d))}
    for (a, b) in pts:
        if not (0 <= a < r1 and 0 <= b < c1):
            return {"class": "path-outside", "detail": "%s: cell %r outside the matrix" % (ctx, (a, b))}
        if M is not None and not (M[a + 1][b + 1] > 0):
            return {"class": "path-nonpositive-cell", "detail": "%s: cell %r has magnitude %r (excluded or zero)" % (ctx, (a, b), M[a + 1][b + 1])}
    if minlen is not None and len(pts) < minlen:
        return {"class": "path-too-short", "detail": "%s: %d cells < minlen %d" % (ctx, len(pts), minlen)}
    if check_disjoint:
        re_used = [p for p in pts if p in U]
        if re_used:
            return {"class": "cell-reused", "detail": "%s: cells %r were consumed by an earlier match since the last reset" % (ctx, re_used[:4])}
    return None


# ---------------------------------------------------------------------------------------------- execution

def _mk(setup):
    import numpy as np
    from dtaidistance.subsequence.localconcurrences import LocalConcurrences
    lay = setup.get("layout") or ["c", "c"]
    s1 = layouts.view(np.array(setup["series1"], dtype=np.double), lay[0])
    s2 = None if setup["series2"] is None else layouts.view(np.array(setup["series2"], dtype=np.double), lay[1])
    v = setup["variant"]
    return LocalConcurrences(s1, s2, gamma=setup["gamma"], tau=setup["tau"], delta=setup["delta"], delta_factor=setup["delta_factor"],
                             only_triu=setup["only_triu"], penalty=setup["penalty"], window=setup["window"],
                             use_c=(v != "py"), compact=(v == "c_compact"))


def _matrix_check(setup, M, add, bump, opi):
    """C18 first sentence: Python, C-full and C-compact(+expansion) matrices against the recurrence."""
    import numpy as np
    from dtaidistance import dtw
    s1 = np.array(setup["series1"], dtype=np.double)
    s2 = s1 if setup["series2"] is None else np.array(setup["series2"], dtype=np.double)
    kw = dict(gamma=setup["gamma"], tau=setup["tau"], delta=setup["delta"], delta_factor=setup["delta_factor"],
              only_triu=eff_triu(setup), penalty=setup["penalty"], window=setup["window"])
    r, c = len(s1), len(s2)
    engines = {}
    try:
        _, engines["python"] = dtw.warping_paths_affinity(s1, s2, **kw)
    except Exception as exc:  # noqa
        bump("matrix_raised:python:" + type(exc).__name__)
        add({"class": "matrix-exception", "detail": "warping_paths_affinity (Python) raised %s: %s" % (type(exc).__name__, str(exc)[:160])}, opi)
    try:
        _, engines["c_full"] = dtw.warping_paths_affinity_fast(s1, s2, compact=False, **kw)
    except Exception as exc:  # noqa
        bump("matrix_raised:c_full:" + type(exc).__name__)
    try:
        from dtaidistance import dtw_cc
        _, comp = dtw.warping_paths_affinity_fast(s1, s2, compact=True, **kw)
        full = np.full((r + 1, c + 1), -np.inf)
        settings = dtw_cc.DTWSettings(window=setup["window"] or 0, penalty=setup["penalty"] or 0)
        dtw_cc.wps_expand_slice(comp, full, r, c, 0, r + 1, 0, c + 1, settings)
        engines["c_compact_expanded"] = full
    except Exception as exc:  # noqa
        bump("matrix_raised:c_compact:" + type(exc).__name__)
    def compare(name, A, Mx):
        for i in range(1, r + 1):
            for j in range(1, c + 1):
                m = Mx[i][j]
                a = float(A[i, j])
                if m == -math.inf:
                    if a > 0 and not math.isinf(a):
                        return {"class": "matrix-excluded-cell", "detail": "%s: excluded cell (%d,%d) holds %r" % (name, i, j, a)}
                elif not close(a, m):
                    return {"class": "matrix-recurrence", "detail": "%s: cell (%d,%d) holds %r, the recurrence gives %r" % (name, i, j, a, m)}
        return None

    for name, A in engines.items():
        bump("matrix:" + name)
        if A.shape != (r + 1, c + 1):
            add({"class": "matrix-shape", "detail": "%s: shape %r" % (name, A.shape)}, opi)
            continue
        # Whatever the engine and the window: a cell holds -inf (excluded) or a sum of at most r + c - 1 point affinities, each
        # <= 1, possibly negated by a search.  Anything else (NaN, 1e130, ...) is memory the engine never wrote - judged
        # before, and independently of, the listed findings about WHERE the C engines put their values under a window.
        junk = [(i, j, float(A[i, j])) for i in range(1, r + 1) for j in range(1, c + 1)
                if not (float(A[i, j]) == -math.inf or abs(float(A[i, j])) <= r + c + 1)]
        if junk:
            add({"class": "matrix-unwritten-memory", "detail": "%s: cell (%d,%d) holds %r, which no sequence of affinities can produce (%d such cells)"
                                                               % (name, junk[0][0], junk[0][1], junk[0][2], len(junk))}, opi)
            return
        v = compare(name, A, M)
        if v is not None and name != "python" and setup["window"] is not None:
            # known: with a window the C affinity matrix (full form and expanded compact form) does not equal the Python
            # one - a different band for len(s1) < len(s2), cells below the diagonal with only_triu, rows shifted by the
            # expansion once the band starts to slide.  Identified by its cause (C engine + window), see known_findings.json.
            v = {"class": "matrix-c-engine-differs-with-window",
                 "detail": "%s differs from the Python engine / the recurrence for lengths (%d, %d), window=%s, only_triu=%s (e.g. %s)"
                           % (name, r, c, setup["window"], eff_triu(setup), v["detail"])}
        if v is not None and v["class"] != "matrix-c-engine-differs-with-window" and name != "python" and setup["penalty"] not in (None, 0.0, 1.0):
            # hypothesis test for one specific, known disagreement between the engines: the C affinity routines
            # subtract penalty**2 (they take the penalty from the squared-Euclidean DTW set-up), Python subtracts penalty
            if compare(name, A, model_matrix(setup, squared_penalty=True)) is None:
                v = {"class": "matrix-c-engine-squares-affinity-penalty",
                     "detail": "%s equals the recurrence with penalty**2 = %r subtracted, the Python engine (and the recurrence as documented) subtract penalty = %r"
                               % (name, setup["penalty"] ** 2, setup["penalty"])}
        if v is not None:
            add(v, opi)
            return


def execute(history):
    import numpy as np
    setup = history["setup"]
    M = model_matrix(setup)
    viols = []
    cnt = {}

    def bump(k, v=1):
        cnt[k] = cnt.get(k, 0) + v

    def add(v, opi):
        if v is not None:
            v["op"] = opi
            viols.append(v)

    try:
        lc = _mk(setup)
    except Exception as exc:  # noqa
        # the property quantifies over engine/compact: a variant that cannot even be constructed from valid arguments fails it
        bump("unavailable:%s:%s" % (setup["variant"], type(exc).__name__))
        add({"class": "engine-unavailable", "detail": "LocalConcurrences(use_c=%s, compact=%s) raised %s: %s"
                                                     % (setup["variant"] != "py", setup["variant"] == "c_compact", type(exc).__name__, str(exc)[:160])}, 0)
        lc = None
    bump("variant:" + setup["variant"])
    magnitudes = True
    if lc is not None and setup["variant"] != "py" and (setup["window"] is not None or setup["penalty"] not in (None, 0.0, 1.0)):
        # on these inputs the C matrix is known not to equal the recurrence (known findings): judging cells by the
        # recurrence would only restate those findings.  The history oracles that do not need the magnitudes still apply:
        # path shape, end cell, minlen, no reuse since the last reset, restart => as on a fresh object.
        bump("c_variant_history_without_magnitudes:known_matrix_finding")
        magnitudes = False
    handed = []          # (op index, match object, its path as read when it was handed out)
    U = set()
    impure = [False]     # since U was last cleared: has any search with buffer != 0 or minlen > 1 run (such searches consume cells no caller sees)?
    streams = {}
    obs = []
    old = signal.signal(signal.SIGALRM, _alarm)
    try:
        for opi, op in enumerate(history["ops"]):
            kind = op["op"]
            if kind == "matrix":
                _matrix_check(setup, M, add, bump, opi)
                continue
            if lc is None:
                continue
            signal.setitimer(signal.ITIMER_REAL, OP_WALL)
            try:
                if kind == "align":
                    lc.align()
                    bump("op:align")
                elif kind == "reset":
                    lc.reset()
                    U = set(); impure[0] = False
                    bump("op:reset")
                    for st in streams.values():
                        if not st["done"]:
                            st["done"] = True
                            bump("streams_voided_by_reset")
                elif kind == "open":
                    if setup["variant"] == "c_compact" and op["buffer"] > 0:
                        continue   # documented as unsupported
                    streams[op["stream"]] = {"gen": lc.kbest_matches(k=op["k"], minlen=op["minlen"], buffer=op["buffer"], restart=op["restart"]),
                                             "spec": op, "started": False, "done": False, "n": 0}
                    bump("op:open:buffer%s" % ("<0" if op["buffer"] < 0 else (">0" if op["buffer"] > 0 else "=0")))
                elif kind == "next":
                    st = streams.get(op["stream"])
                    if st is None or st["done"]:
                        bump("skipped_next")
                        continue
                    spec = st["spec"]
                    if not st["started"]:
                        st["started"] = True
                        st["pure"] = bool(spec["restart"])
                        st["yielded"] = []
                        if spec["restart"]:
                            if U:
                                bump("fault:restart_while_cells_consumed")
                            U = set(); impure[0] = False
                        for st2 in streams.values():
                            if st2 is not st:
                                st2["pure"] = False
                    others = [s2 for s2 in streams.values() if s2 is not st and s2["started"] and not s2["done"]]
                    if others:
                        bump("fault:generators_interleaved_on_one_matrix")
                        for st2 in others:
                            st2["pure"] = False
                    if spec["buffer"] != 0 or spec["minlen"] > 1:
                        impure[0] = True
                    try:
                        m = next(st["gen"])
                    except StopIteration:
                        st["done"] = True
                        bump("stream_exhausted")
                        m = None
                        if magnitudes and not impure[0] and (spec["k"] is None or st["n"] < spec["k"]):
                            bump("oracle:exhausted")
                            add(check_exhausted(M, U, "kbest_matches(k=%s, minlen=%s, buffer=0) stream" % (spec["k"], spec["minlen"])), opi)
                    if st.get("pure"):
                        # a restarted stream that nobody else has disturbed must yield what the same stream yields on a fresh object
                        st["yielded"].append(None if m is None else [list(map(int, t)) for t in m.path])
                        fresh = _mk(setup)
                        fresh.align()
                        g2 = fresh.kbest_matches(k=spec["k"], minlen=spec["minlen"], buffer=spec["buffer"], restart=True)
                        exp = []
                        for _ in st["yielded"]:
                            try:
                                exp.append([list(map(int, t)) for t in next(g2).path])
                            except StopIteration:
                                exp.append(None)
                                break
                        bump("oracle:restart_equals_fresh")
                        if exp != st["yielded"]:
                            add({"class": "restart-not-as-fresh", "detail": "a kbest_matches(k=%s, buffer=%s, restart=True) stream started after earlier searches yields %r, on a fresh object %r"
                                                                            % (spec["k"], spec["buffer"], st["yielded"][-2:], exp[-2:])}, opi)
                            st["pure"] = False
                    if m is None:
                        continue
                    st["n"] += 1
                    bump("op:next")
                    path = m.path
                    obs.append([opi, int(m.row), int(m.col), [list(map(int, t)) for t in path]])
                    handed.append((opi, m, [list(map(int, t)) for t in path]))
                    v = check_path(path, (int(m.row), int(m.col)), M if magnitudes else None, U, spec["minlen"], "match %d of a kbest_matches(k=%s, minlen=%s, buffer=%s, restart=%s) stream" %
                                   (st["n"], spec["k"], spec["minlen"], spec["buffer"], spec["restart"]), shape=(len(M) - 1, len(M[0]) - 1))
                    add(v, opi)
                    if magnitudes and not impure[0] and v is None:
                        bump("oracle:from_maximum")
                        add(check_from_max((int(m.row), int(m.col)), M, U, "match %d of a kbest_matches(k=%s, minlen=%s, buffer=0) stream" % (st["n"], spec["k"], spec["minlen"])), opi)
                    if spec["k"] is not None and st["n"] > spec["k"]:
                        add({"class": "stream-count", "detail": "more than k=%d matches" % spec["k"]}, opi)
                    U.update((int(a), int(b)) for a, b in path)
                elif kind == "close":
                    st = streams.get(op["stream"])
                    if st is not None and not st["done"]:
                        st["gen"].close()
                        st["done"] = True
                        if st["started"]:
                            bump("fault:generator_abandoned_half_way")
                elif kind == "store":
                    if setup["variant"] == "c_compact" and op["buffer"] > 0:
                        continue
                    if op["restart"]:
                        U = set(); impure[0] = False
                    if op["buffer"] != 0 or op["minlen"] > 1:
                        impure[0] = True
                    ms = lc.kbest_matches_store(k=op["k"], minlen=op["minlen"], buffer=op["buffer"], restart=op["restart"], keep=op["keep"])
                    bump("op:store:" + ("keep" if op["keep"] else "nokeep"))
                    n = 0
                    for m in ms:
                        n += 1
                        path = m.path
                        obs.append([opi, int(m.row), int(m.col), [list(map(int, t)) for t in path]])
                        handed.append((opi, m, [list(map(int, t)) for t in path]))
                        v = check_path(path, (int(m.row), int(m.col)), M if magnitudes else None, U, op["minlen"], "match %d of kbest_matches_store(k=%s, buffer=%s, restart=%s, keep=%s)" %
                                       (n, op["k"], op["buffer"], op["restart"], op["keep"]), shape=(len(M) - 1, len(M[0]) - 1))
                        add(v, opi)
                        if magnitudes and not impure[0] and v is None:
                            bump("oracle:from_maximum")
                            add(check_from_max((int(m.row), int(m.col)), M, U, "match %d of kbest_matches_store(k=%s, minlen=%s, buffer=0)" % (n, op["k"], op["minlen"])), opi)
                        U.update((int(a), int(b)) for a, b in path)
                    if op["k"] is not None and n > op["k"]:
                        add({"class": "stream-count", "detail": "store returned %d > k=%d matches" % (n, op["k"])}, opi)
                    if magnitudes and not impure[0] and (op["k"] is None or n < op["k"]):
                        bump("oracle:exhausted")
                        add(check_exhausted(M, U, "kbest_matches_store(k=%s, minlen=%s, buffer=0)" % (op["k"], op["minlen"])), opi)
                    if op["restart"]:
                        # "restart: start searching from start, ignore previous calls": the result must be what a fresh object gives
                        fresh = _mk(setup)
                        fresh.align()
                        exp = [[list(map(int, t)) for t in m.path] for m in fresh.kbest_matches_store(k=op["k"], minlen=op["minlen"], buffer=op["buffer"], restart=True, keep=op["keep"])]
                        got = [[list(map(int, t)) for t in m.path] for m in ms]
                        bump("oracle:restart_equals_fresh")
                        if got != exp:
                            add({"class": "restart-not-as-fresh", "detail": "kbest_matches_store(k=%s, buffer=%s, restart=True) after earlier searches returns %r, a fresh object returns %r" % (op["k"], op["buffer"], got[:3], exp[:3])}, opi)
                    if not op["keep"]:
                        U = set(); impure[0] = False
                    for st2 in streams.values():
                        st2["pure"] = False
                elif kind == "reread":
                    # a match handed out earlier is a result: reading it again later (after other searches, restarts, a reset
                    # and a new alignment) must show the path it showed then
                    if not handed:
                        continue
                    opj, m_old, p_old = handed[op["which"] % len(handed)]
                    bump("op:reread")
                    p_now = [list(map(int, t)) for t in m_old.path]
                    if p_now != p_old:
                        add({"class": "match-changed", "detail": "the match handed out by op %d showed path %r then, %r when read again now" % (opj, p_old[:6], p_now[:6])}, opi)
                    del handed[:-24]
                elif kind == "best_match":
                    if lc._wp is None or setup["variant"] == "c_compact" or not magnitudes:
                        continue
                    m = lc.best_match()
                    bump("op:best_match")
                    if int(m.row) > 0 and int(m.col) > 0 and M[int(m.row)][int(m.col)] > 0:
                        add(check_path(m.path, (int(m.row), int(m.col)), M, U, None, "best_match", check_disjoint=False), opi)
                elif kind == "wp_slice":
                    if lc._wp is None or not magnitudes or U or any(s2["started"] and not s2["done"] for s2 in streams.values()):
                        continue       # how consumed cells are marked is not specified: compared only while nothing is consumed
                    sl = lc.wp_slice()
                    bump("op:wp_slice")
                    A = np.ma.getdata(sl) if isinstance(sl, np.ma.MaskedArray) else np.asarray(sl)
                    for i in range(1, len(M)):
                        for j in range(1, len(M[0])):
                            if M[i][j] > -math.inf and not close(abs(float(A[i, j])), M[i][j]):
                                add({"class": "wp-magnitude", "detail": "wp_slice: cell (%d,%d) has magnitude %r, the recurrence gives %r" % (i, j, abs(float(A[i, j])), M[i][j])}, opi)
                                break
                        else:
                            continue
                        break
            except OpTimeout:
                bump("op_timeout")
                add({"class": "hang", "detail": "%s did not return within %d s" % (kind, OP_WALL)}, opi)
                break
            except Exception as exc:  # noqa
                bump("raised:%s:%s" % (kind, type(exc).__name__))
                add({"class": "exception", "detail": "%s raised %s: %s" % (kind, type(exc).__name__, str(exc)[:160])}, opi)
            finally:
                signal.setitimer(signal.ITIMER_REAL, 0)
    finally:
        signal.setitimer(signal.ITIMER_REAL, 0)
        signal.signal(signal.SIGALRM, old)
    return {"violations": viols[:4], "counters": cnt, "nontrivial": sessions.sessions_interleaved(history),
            "digest": core.hash_obj([obs, [[v["class"], v["op"]] for v in viols]])}


def signature(history, viol):
    ops = history["ops"]
    opi = viol.get("op")
    if viol["class"].startswith("matrix-c-engine-"):
        return "C18/" + viol["class"]
    feats = [history["setup"]["variant"]]
    if opi is not None and opi < len(ops):
        op = ops[opi]
        feats.append(op["op"])
        spec = op
        if op["op"] == "next":
            spec = next((o for o in ops if o["op"] == "open" and o["stream"] == op["stream"]), op)
        if "buffer" in spec:
            feats.append("buffer" + ("<0" if spec["buffer"] < 0 else (">0" if spec["buffer"] > 0 else "=0")))
    if viol["class"] in ("exception", "matrix-exception") and history["setup"]["penalty"] is None:
        feats.append("penalty=None")
    return "C18/%s/%s" % (viol["class"], "/".join(feats))


def shrink(h):
    setup = h["setup"]
    out = []

    def variant(**kw):
        s2 = copy.deepcopy(setup)
        s2.update(kw)
        return {"setup": s2, "ops": copy.deepcopy(h["ops"])}

    if len(setup["series1"]) > 2:
        out.append(variant(series1=setup["series1"][:-1]))
        out.append(variant(series1=setup["series1"][1:]))
    if setup["series2"] is not None and len(setup["series2"]) > 2:
        out.append(variant(series2=setup["series2"][:-1]))
        out.append(variant(series2=setup["series2"][1:]))
    for key, val in (("window", None), ("penalty", 0.0), ("tau", 0.0), ("delta", 0.0), ("delta_factor", 1.0), ("gamma", 1.0), ("only_triu", None), ("variant", "py")):
        if setup[key] != val:
            out.append(variant(**{key: val}))
    for i, op in enumerate(h["ops"]):
        if op["op"] in ("open", "store"):
            for key, val in (("buffer", 0), ("minlen", 2), ("restart", True), ("k", None), ("keep", False)):
                if key in op and op[key] != val:
                    ops = copy.deepcopy(h["ops"]); ops[i][key] = val
                    out.append({"setup": copy.deepcopy(setup), "ops": ops})
    if len({o.get("s") for o in h["ops"]}) > 1:
        ops = copy.deepcopy(h["ops"])
        for o in ops:
            o["s"] = 0
        out.append({"setup": copy.deepcopy(setup), "ops": ops})
    return out


def main(tier, seed):
    sessions.Runner("sim.props.c18").run(tier, seed)


def replay(path):
    sessions.Runner("sim.props.c18").replay(path)
