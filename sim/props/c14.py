"""C14 — k-NN subsequence search is exact and history-independent (DESIGN.md §4, C14).

System under simulation (all real): SubsequenceSearch, SSMatches, SSMatch, dtw.distance, dtw.lb_keogh,
dtw_ndim.distance, the C engine when use_c.  Several client sessions share search objects and the
caller's dists_options dicts; the seeded scheduler interleaves their calls and their (lazy) reads.
Oracles: (1) exhaustive comparison with an independent reference DTW; (2) the same question asked
to a fresh object built from pristine copies; (3) late reads of lazy views never return wrong data.
"""
import copy
import json
import math

from .. import core, sessions, layouts
from ..models import dtw_ref

PROP = "C14"
TIERS = {"quick": 64000, "thorough": 3200000}
BATCH = 500
HISTORY_WALL = 60
NO_MINIMISE = {"hang"}
RULE = ("one evaluation = one generated history (2-3 client sessions, 6-40 ops: construct / kbest_matches(k) / kbest_matches_fast / best_match / "
        "align / reset / get_ith_value / late reads of SSMatches and SSMatch views) executed against real SubsequenceSearch objects that share "
        "option dicts, checked op by op against exhaustive search with an independent DTW and against a fresh object. Distinct = distinct "
        "(op kind, session) sequences; non-trivial = at least two sessions alternate at least twice.")
COMPONENTS = {"real": ["subsequence/subsequencesearch.py (SubsequenceSearch, SSMatches, SSMatch)", "dtw.distance / dtw.lb_keogh (Python)",
                       "dtw_cc.distance / lb_keogh (C engine, use_c)", "dtw_ndim.distance"],
              "stub": ["client sessions and their interleaving (seeded scheduler)", "reference model: exhaustive search with /verif/sim/models/dtw_ref.py"]}
ASSUMPTIONS = ["query and candidates are handed over as contiguous arrays or (independently, three times in seven each) as strided / reversed / Fortran-ordered views of the same numbers", "bounds: mostly query length 1..6 and 1..10 candidates of length 1..8 (one history in 12: 11..24 candidates of length <= 16, k up to 24, up to ~70 ops); values on a small grid (ties and duplicates on purpose)",
               "thresholds are placed at least 1e-4 away from every true distance, or exactly on one where it is an exactly representable integer",
               "index comparisons are tie-aware; comparisons against a fresh object compare counts and distances (rel. tol 1e-9: a cached answer may come from the other engine)"]
TOL = 1e-9


# ---------------------------------------------------------------------------------------------- generation

def gen_history(st):
    rng = st("workload")
    ndim = rng.below(6) == 0
    d = 2 if ndim else 1
    grid = rng.below(3)

    def val():
        if grid == 0:
            return float(rng.below(4))
        if grid == 1:
            return (rng.below(13) - 6) * 0.5
        return round(rng.uniform(-3, 3), 2)

    def series(L):
        if ndim:
            return [[val() for _ in range(d)] for _ in range(L)]
        return [val() for _ in range(L)]

    big = rng.below(12) == 0          # swarm sizing: one history in 12 has many / long candidates and larger k
    lq = 5 + rng.below(8) if big else 1 + rng.below(6)
    query = series(lq)
    n = 11 + rng.below(14) if big else 1 + rng.below(10)
    equal = rng.below(2) == 0
    cands = []
    for i in range(n):
        L = lq if equal else 1 + rng.below(16 if big else 8)
        cands.append(series(L))
        if i > 0 and rng.below(4) == 0:
            cands[i] = copy.deepcopy(cands[rng.below(i)])
        if rng.below(12) == 0 and len(cands[i]) == lq:
            cands[i] = copy.deepcopy(query)
    # option dicts that the "caller" owns and may hand to several objects
    ndicts = 1 + rng.below(2)
    dicts = []
    for _ in range(ndicts):
        o = {}
        if rng.below(2):
            o["window"] = 1 + rng.below(max(lq, max(len(c) for c in cands)) + 1)
        if rng.below(3) == 0:
            o["penalty"] = rng.choice([0.5, 1.0, 2.0])
        dicts.append(o)
    # true distances decide where thresholds may be placed (away from every distance)
    lrng = st("layout")       # a stream of its own: the layouts do not shift the rest of the workload
    setup = {"query": query, "cands": cands, "ndim": ndim, "dicts": dicts,
             "layout": {"q": lrng.choice(layouts.KINDS), "c": [lrng.choice(layouts.KINDS) for _ in cands]}}
    Ds = []
    for o in dicts:
        Ds.append(sorted(set(x for x in true_distances(setup, o) if x < math.inf)))

    def threshold(di):
        D = Ds[di]
        k = rng.below(6)
        if not D or k == 0:
            return None
        if k == 1:
            return round(D[0] * 0.5, 6) if D[0] > 1e-3 else None
        if k == 2:
            return D[-1] + 1.0
        if k == 3:
            # exactly ON a distance, but only where every engine computes it exactly (integer grid, perfect square)
            exact = [x for x in D if x == int(x) and x > 0]
            if grid == 0 and exact:
                return float(rng.choice(exact))
        i = rng.below(len(D))
        if i + 1 < len(D) and D[i + 1] - D[i] > 1e-4:
            return (D[i] + D[i + 1]) / 2
        return D[i] + 0.25 if (i + 1 == len(D) or D[i + 1] - D[i] > 0.5) else None

    for di, o in enumerate(dicts):
        if rng.below(4) == 0:
            t = threshold(di)
            if t is not None:
                o["max_dist"] = t
    nobj = 1 + rng.below(3)
    objs = []
    for oi in range(nobj):
        di = rng.below(ndicts) if rng.below(5) else None
        spec = {"op": "new", "obj": oi, "dict": di, "use_lb": bool(rng.below(2)), "use_c": rng.choice([None, None, False, True]),
                "keep_all": rng.below(5) == 0, "max_dist": None, "max_value": None}
        if rng.below(4) == 0:
            spec["max_dist"] = threshold(di if di is not None else 0) if (di is not None or not dicts[0]) else None
        if rng.below(6) == 0 and (spec["max_dist"] is None or rng.below(3) == 0):     # sometimes both bounds: the smaller one counts
            t = threshold(di if di is not None else 0) if (di is not None or not dicts[0]) else None
            if t is not None:
                spec["max_value"] = t / lq
        objs.append(spec)
    nsess = 2 + rng.below(2)
    programs = [[] for _ in range(nsess)]
    for spec in objs:
        programs[rng.below(nsess)].append(spec)
    vid = 0
    for s in range(nsess):
        for _ in range((8 + rng.below(16)) if big else (2 + rng.below(9))):
            oi = rng.below(nobj)
            k = rng.below(20)
            if k < 9:
                kk = rng.choice([1, 1, 2, 3, n, n + 1, None, 1 + rng.below(n + 1), 1 + rng.below(n + 1)] + ([11, 12, 15, n - 1] if big else []))
                programs[s].append({"op": "kbest", "obj": oi, "k": kk, "fast": rng.below(6) == 0, "view": vid}); vid += 1
            elif k < 11:
                programs[s].append({"op": "best_match", "obj": oi, "fast": rng.below(8) == 0, "view": vid}); vid += 1
            elif k < 13:
                programs[s].append({"op": "align", "obj": oi, "k": rng.choice([1, 2, n, None, 1 + rng.below(n + 1)]), "fast": rng.below(8) == 0})
            elif k < 14:
                programs[s].append({"op": "reset", "obj": oi})
            elif k < 15:
                programs[s].append({"op": "ith", "obj": oi, "i": rng.below(n + 1)})
            else:
                if vid:
                    how = rng.choice(["iter", "iter", "len", "index", "slice"])
                    programs[s].append({"op": "read", "view": rng.below(vid), "how": how, "a": rng.below(n + 1), "b": rng.below(n + 2)})
    ops = sessions.interleave(st("sessions"), programs)
    return {"setup": setup, "ops": ops}


# ---------------------------------------------------------------------------------------------- model

def true_distances(setup, opts):
    q, nd = setup["query"], setup["ndim"]
    return [dtw_ref.distance(q, c, window=opts.get("window"), penalty=opts.get("penalty", 0.0), ndim=nd) for c in setup["cands"]]


def close(a, b):
    if math.isinf(a) or math.isinf(b):
        return a == b
    return abs(a - b) <= TOL * max(1.0, abs(a), abs(b))


def check_answer(pairs, k, D, bound, exact_count, ctx):
    """pairs: [(distance, idx)] as yielded.  Returns a violation dict or None."""
    within = sorted(x for x in D if x <= bound)
    if k is not None:
        exp = within[:k]
        if exact_count and len(pairs) != len(exp):
            return {"class": "count", "detail": "%s: %d matches returned, exhaustive search gives %d (k=%s, %d candidates within the bound)" % (ctx, len(pairs), len(exp), k, len(within))}
        if len(pairs) > len(exp):
            return {"class": "count", "detail": "%s: %d matches returned, more than the %d that exist" % (ctx, len(pairs), len(exp))}
        seen = set()
        for pos, (dist, idx) in enumerate(pairs):
            if not close(dist, exp[pos]):
                return {"class": "values", "detail": "%s: position %d has distance %r, exhaustive search gives %r" % (ctx, pos, dist, exp[pos])}
            if not (0 <= idx < len(D)) or idx in seen or not close(D[idx], dist):
                return {"class": "index", "detail": "%s: position %d names candidate %r (true distance %r) with distance %r" % (ctx, pos, idx, D[idx] if 0 <= idx < len(D) else None, dist)}
            seen.add(idx)
        return None
    # k is None: every candidate exactly once, ascending, inf for those beyond the bound
    exp = sorted((x if x <= bound else math.inf) for x in D)
    if exact_count and len(pairs) != len(exp):
        return {"class": "count", "detail": "%s: k=None returned %d entries for %d candidates" % (ctx, len(pairs), len(exp))}
    seen = set()
    for pos, (dist, idx) in enumerate(pairs):
        if not close(dist, exp[pos]):
            return {"class": "values", "detail": "%s: k=None position %d has distance %r, expected %r" % (ctx, pos, dist, exp[pos])}
        e = D[idx] if D[idx] <= bound else math.inf
        if not (0 <= idx < len(D)) or idx in seen or not close(e, dist):
            return {"class": "index", "detail": "%s: k=None position %d names candidate %r whose distance is %r, reported %r" % (ctx, pos, idx, e, dist)}
        seen.add(idx)
    return None


def check_truthful(pairs, start, D, bound, ctx):
    """Weaker oracle for reads through a (possibly stale) lazy view: whatever is shown must be true —
    position start+p holds the (start+p)-th smallest distance (inf beyond the bound) and the named
    candidate really has that distance; no candidate twice."""
    exp = sorted((x if x <= bound else math.inf) for x in D)
    seen = set()
    for off, (dist, idx) in enumerate(pairs):
        pos = start + off
        if pos >= len(exp):
            return {"class": "stale-view-wrong", "detail": "%s: position %d shown but only %d candidates exist" % (ctx, pos, len(exp))}
        if not close(exp[pos], dist):
            return {"class": "stale-view-wrong", "detail": "%s: position %d shows distance %r, the %d-th smallest true distance is %r" % (ctx, pos, dist, pos, exp[pos])}
        if not (0 <= idx < len(D)) or idx in seen or not close(D[idx] if D[idx] <= bound else math.inf, dist):
            return {"class": "stale-view-wrong", "detail": "%s: position %d names candidate %r with distance %r (true: %r)" % (ctx, pos, idx, dist, D[idx] if 0 <= idx < len(D) else None)}
        seen.add(idx)
    return None


# ---------------------------------------------------------------------------------------------- execution

def _mk(setup):
    import numpy as np
    lay = setup.get("layout") or {"q": "c", "c": []}
    q = layouts.view(np.array(setup["query"], dtype=np.double), lay["q"])
    cs = [layouts.view(np.array(c, dtype=np.double), lay["c"][i] if i < len(lay["c"]) else "c") for i, c in enumerate(setup["cands"])]
    return q, cs


def _construct(spec, q, cs, dictobj):
    from dtaidistance.subsequence.subsequencesearch import SubsequenceSearch
    return SubsequenceSearch(q, cs, dists_options=dictobj, use_lb=spec["use_lb"], keep_all_distances=spec["keep_all"],
                             max_dist=spec["max_dist"], max_value=spec["max_value"], use_c=spec["use_c"])


def _pairs_of_view(view):
    return [(float(m.distance), int(m.idx)) for m in view]


def _call(obj, op):
    """Perform a query op; returns ('ok', pairs, view) or ('exc', type name, None)."""
    try:
        if op["op"] == "kbest":
            v = obj.kbest_matches_fast(k=op["k"]) if op.get("fast") else obj.kbest_matches(k=op["k"])
            return "ok", _pairs_of_view(v), v
        if op["op"] == "best_match":
            m = obj.best_match_fast() if op.get("fast") else obj.best_match()
            return "ok", [(float(m.distance), int(m.idx))], m
        if op["op"] == "align":
            r = obj.align_fast(k=op["k"]) if op.get("fast") else obj.align(k=op["k"])
            return "ok", [(float(a), int(b)) for a, b in r], None
    except Exception as exc:  # noqa
        return "exc", type(exc).__name__, None
    raise ValueError(op["op"])


def execute(history):
    setup = history["setup"]
    q, cs = _mk(setup)
    pristine_dicts = copy.deepcopy(setup["dicts"])
    live_dicts = copy.deepcopy(setup["dicts"])
    n = len(cs)
    lq = len(setup["query"])
    Dcache = {}

    def D_for(opts):
        key = json.dumps({k: opts.get(k) for k in ("window", "penalty")}, sort_keys=True)
        if key not in Dcache:
            Dcache[key] = true_distances(setup, opts)
        return Dcache[key]

    objs, specs, views = {}, {}, {}
    resets = {}
    viols = []
    cnt = {}
    obs = []

    def bump(k, v=1):
        cnt[k] = cnt.get(k, 0) + v

    def bound_of(spec):
        opts = pristine_dicts[spec["dict"]] if spec["dict"] is not None else {}
        b = spec["max_dist"] if spec["max_dist"] is not None else opts.get("max_dist", math.inf)
        if spec["max_value"] is not None:
            b = min(b, spec["max_value"] * lq)
        return b, opts

    for opi, op in enumerate(history["ops"]):
        kind = op["op"]
        if kind == "new":
            spec = op
            dictobj = live_dicts[spec["dict"]] if spec["dict"] is not None and spec["dict"] < len(live_dicts) else None
            if spec["dict"] is not None and spec["dict"] >= len(live_dicts):
                continue
            try:
                objs[spec["obj"]] = _construct(spec, q, cs, dictobj)
                specs[spec["obj"]] = spec
                resets[spec["obj"]] = 0
                bump("objects")
                if spec["dict"] is not None and sum(1 for s2 in specs.values() if s2["dict"] == spec["dict"]) >= 2:
                    bump("fault:options_dict_shared_between_objects")
            except Exception as exc:  # noqa
                bump("construct_raised:" + type(exc).__name__)
            continue
        if kind in ("kbest", "best_match", "align"):
            oi = op["obj"]
            if oi not in objs:
                bump("skipped_no_object")
                continue
            obj, spec = objs[oi], specs[oi]
            bound, opts = bound_of(spec)
            D = D_for(opts)
            k = 1 if kind == "best_match" else op["k"]
            if kind != "align" and obj.kbest_distances is not None and obj.k is not None and k is not None and k <= obj.k:
                bump("probe:cache_hit_path")
            status, pairs, view = _call(obj, op)
            obs.append([opi, status, [[core.fbits(a), b] for a, b in pairs] if status == "ok" else pairs])
            # fresh twin: same construction from pristine copies, asked only this question
            q2, cs2 = _mk(setup)
            fd = copy.deepcopy(pristine_dicts[spec["dict"]]) if spec["dict"] is not None else None
            try:
                fresh = _construct(spec, q2, cs2, fd)
                fstatus, fpairs, _ = _call(fresh, op)
            except Exception as exc:  # noqa
                fstatus, fpairs = "exc", type(exc).__name__
            bump("op:" + kind + (":fast" if op.get("fast") else ""))
            if status == "exc" or fstatus == "exc":
                bump("raised:" + str(pairs if status == "exc" else fpairs))
                if status != fstatus or (status == "exc" and pairs != fpairs):
                    viols.append({"class": "exception-history", "op": opi,
                                  "detail": "%s on the shared object %s, on a fresh object %s" % (kind, (status, pairs if status == "exc" else "returned"), (fstatus, fpairs if fstatus == "exc" else "returned"))})
                continue
            # the stored per-candidate distances (k=None or keep_all_distances): whatever is finite must be the true distance
            if getattr(obj, "distances", None) is not None and len(obj.distances) == n:
                bump("probe:distances_attribute_checked")
                for ci, dv in enumerate(obj.distances):
                    dv = float(dv)
                    if not math.isinf(dv) and not close(dv, D[ci]):
                        viols.append({"class": "stored-distances", "op": opi,
                                      "detail": "%s: stored distance of candidate %d is %r, exhaustive search gives %r" % (kind, ci, dv, D[ci])})
                        break
            if view is not None and "view" in op:
                views[op["view"]] = {"view": view, "obj": oi, "k": k, "kind": kind, "reset_gen": resets[oi], "op": opi}
            ctx = "%s(k=%s)" % (kind, k)
            v = check_answer(pairs, k, D, bound, exact_count=True, ctx=ctx)
            if v is None and (len(pairs) != len(fpairs) or any(not close(a, b) for (a, _), (b, _) in zip(pairs, fpairs))):
                v = {"class": "fresh-mismatch", "detail": "%s: shared object answers %r, a fresh object answers %r" % (ctx, pairs[:6], fpairs[:6])}
            if v is not None:
                v["op"] = opi
                viols.append(v)
            continue
        if kind == "reset":
            if op["obj"] in objs:
                objs[op["obj"]].reset()
                resets[op["obj"]] += 1
                bump("op:reset")
            continue
        if kind == "ith":
            oi = op["obj"]
            if oi not in objs:
                continue
            obj, spec = objs[oi], specs[oi]
            try:
                dist, idx = obj.get_ith_value(op["i"])
            except Exception as exc:  # noqa
                bump("ith_raised:" + type(exc).__name__)
                continue
            bump("op:ith")
            bound, opts = bound_of(spec)
            D = D_for(opts)
            if obj.k is not None:
                exp = sorted(x for x in D if x <= bound)
                if op["i"] >= len(exp) or not close(exp[op["i"]], float(dist)) or not close(D[int(idx)], float(dist)):
                    viols.append({"class": "values", "op": opi, "detail": "get_ith_value(%d) = (%r, %r), exhaustive search gives %r" % (op["i"], dist, idx, exp[op["i"]] if op["i"] < len(exp) else None)})
            continue
        if kind == "read":
            vw = views.get(op["view"])
            if vw is None:
                bump("skipped_no_view")
                continue
            oi = vw["obj"]
            late = any(o2.get("obj") == oi and o2["op"] in ("kbest", "best_match", "align", "reset") for o2 in history["ops"][vw["op"] + 1:opi])
            if resets[oi] != vw["reset_gen"]:
                bump("late_read_after_reset_ignored")
                continue
            spec = specs[oi]
            bound, opts = bound_of(spec)
            D = D_for(opts)
            try:
                view = vw["view"]
                if vw["kind"] == "best_match":
                    pairs = [(float(view.distance), int(view.idx))]
                    how = "match"
                elif op["how"] == "iter":
                    pairs = _pairs_of_view(view); how = "iter"
                elif op["how"] == "len":
                    len(view); bump("op:read:len"); continue
                elif op["how"] == "index":
                    m = view[op["a"]]
                    bump("op:read:index")
                    if late:
                        bump("fault:lazy_view_read_late")
                    v = check_truthful([(float(m.distance), int(m.idx))], op["a"], D, bound, "view[%d]" % op["a"])
                    if v is not None:
                        v["op"] = opi
                        viols.append(v)
                    continue
                else:
                    a, b = min(op["a"], op["b"]), max(op["a"], op["b"])
                    ms = view[a:b]
                    bump("op:read:slice")
                    if late:
                        bump("fault:lazy_view_read_late")
                    v = check_truthful([(float(m.distance), int(m.idx)) for m in ms], a, D, bound, "view[%d:%d]" % (a, b))
                    if v is not None:
                        v["op"] = opi
                        viols.append(v)
                    continue
            except Exception as exc:  # noqa
                bump("read_raised:" + type(exc).__name__)
                continue
            bump("op:read:" + how)
            if late:
                bump("fault:lazy_view_read_late")
            # a late read goes through a view whose backing store later calls may have replaced: it may show fewer or
            # more entries than when it was made, but whatever it shows must be true
            if late:
                v = check_truthful(pairs, 0, D, bound, "late read of %s view (k=%s)" % (vw["kind"], vw["k"]))
            else:
                v = check_answer(pairs, vw["k"], D, bound, exact_count=True, ctx="read of %s view (k=%s)" % (vw["kind"], vw["k"]))
            if v is not None:
                v["op"] = opi
                viols.append(v)
            continue
    mutated = sum(1 for a, b in zip(live_dicts, pristine_dicts) if a != b)
    if mutated:
        bump("info:caller_options_dict_left_modified", mutated)
    return {"violations": viols[:4], "counters": cnt, "nontrivial": sessions.sessions_interleaved(history),
            "digest": core.hash_obj([obs, [[v["class"], v["op"]] for v in viols]])}


# ---------------------------------------------------------------------------------------------- classification / shrinking

def signature(history, viol):
    ops = history["ops"]
    opi = viol.get("op")
    feats = []
    if opi is not None and opi < len(ops):
        op = ops[opi]
        feats.append(op["op"])
        oi = op.get("obj")
        if op["op"] == "read":
            feats.append("how=" + str(op.get("how")))
        spec = next((o for o in ops if o["op"] == "new" and o.get("obj") == oi), None)
        if op["op"] in ("kbest", "align", "best_match"):
            k = 1 if op["op"] == "best_match" else op.get("k")
            feats.append("k=None" if k is None else "k=int")
            prior = [o for o in ops[:opi] if o.get("obj") == oi and o["op"] in ("kbest", "align", "best_match")]
            if any((o.get("k") is not None and k is not None and (1 if o["op"] == "best_match" else o["k"]) > k) for o in prior):
                feats.append("after-larger-k")
            elif prior:
                feats.append("after-other-call")
            if op.get("fast"):
                feats.append("fast")
        if spec is not None:
            if spec.get("use_lb") and "k=None" in feats:
                feats.append("use_lb")
            if spec.get("dict") is not None and any(o["op"] == "new" and o.get("obj") != oi and o.get("dict") == spec["dict"] for o in ops[:opi]):
                feats.append("dict-shared")
    return "C14/%s/%s" % (viol["class"], "/".join(feats))


def shrink(h):
    setup = h["setup"]
    out = []

    def variant(**kw):
        s2 = copy.deepcopy(setup)
        s2.update(kw)
        return {"setup": s2, "ops": copy.deepcopy(h["ops"])}

    n = len(setup["cands"])
    if n > 1:
        for drop in range(n - 1, -1, -1):
            out.append(variant(cands=setup["cands"][:drop] + setup["cands"][drop + 1:]))
    if len(setup["query"]) > 1:
        out.append(variant(query=setup["query"][:-1]))
    for i, c in enumerate(setup["cands"]):
        if len(c) > 1:
            cs = copy.deepcopy(setup["cands"]); cs[i] = c[:-1]
            out.append(variant(cands=cs))
    for di, d in enumerate(setup["dicts"]):
        for k in list(d):
            ds = copy.deepcopy(setup["dicts"]); del ds[di][k]
            out.append(variant(dicts=ds))
    for i, op in enumerate(h["ops"]):
        if op["op"] == "new":
            for key, val in (("use_lb", False), ("use_c", None), ("keep_all", False), ("max_dist", None), ("max_value", None)):
                if op.get(key) != val:
                    ops = copy.deepcopy(h["ops"]); ops[i][key] = val
                    out.append({"setup": copy.deepcopy(setup), "ops": ops})
        if op["op"] in ("kbest", "align") and op.get("fast"):
            ops = copy.deepcopy(h["ops"]); ops[i]["fast"] = False
            out.append({"setup": copy.deepcopy(setup), "ops": ops})
        if op["op"] in ("kbest", "align") and isinstance(op.get("k"), int) and op["k"] > 1:
            ops = copy.deepcopy(h["ops"]); ops[i]["k"] = op["k"] - 1
            out.append({"setup": copy.deepcopy(setup), "ops": ops})
    if setup["ndim"] is False:
        flat = [x for x in setup["query"]] + [x for c in setup["cands"] for x in c]
        if any(x != round(x) for x in flat):
            out.append(variant(query=[float(round(x)) for x in setup["query"]], cands=[[float(round(x)) for x in c] for c in setup["cands"]]))
    # single session
    if len({o.get("s") for o in h["ops"]}) > 1:
        ops = copy.deepcopy(h["ops"])
        for o in ops:
            o["s"] = 0
        out.append({"setup": copy.deepcopy(setup), "ops": ops})
    return out


def main(tier, seed):
    sessions.Runner("sim.props.c14").run(tier, seed)


def replay(path):
    sessions.Runner("sim.props.c14").replay(path)
