"""C16 — DBA k-means returns k clusters covering all series, nearest mean each (DESIGN.md §4, C16).

System under simulation (all real): KMeans (k-means++ / random initialisation, assignment, DBA update,
empty-cluster repair, outlier dropping, final assignment), dtw.distance / dtw_cc.distance,
dtw_barycenter.dba_loop (Python and C).  Seams owned by the simulator:
  * both random generators the code draws from (np.random, random) are seeded per fit from the
    history - "any random seed" is literally what is sampled;
  * multiprocessing.Pool is simpool: pool size, chunking and completion order from the seed;
    fit(use_parallel=True) must return exactly what fit(use_parallel=False) returns from the same
    generator state;
  * monitor_distances is an environment callback that cancels the run at a seeded iteration; the
    postcondition must hold at every cancellation point.
Client sessions re-fit shared model objects on alternating data sets.
"""
import copy
import logging
import math

from .. import core, sessions, layouts, simpool
from ..models import dtw_ref

PROP = "C16"
TIERS = {"quick": 4000, "thorough": 200000}
BATCH = 50
OP_WALL = 60
NO_MINIMISE = {"hang"}
MAX_MINIMISE = 4
RULE = ("one evaluation = one generated history (1-2 KMeans model objects, 1-5 fits by 2 client sessions, each fit with its own numpy/random seeds, "
        "optionally a cancellation by monitor_distances at a seeded iteration and optionally a second run under a simulated process pool that must "
        "equal the serial run exactly); oracle: keys 0..k-1, disjoint, covering, k finite means, every series in the cluster of a nearest mean under an "
        "independent reference DTW with the given options, performed_it <= max_it + 1. Distinct = distinct (op kind, session, seeds, cancel point, pool schedule) "
        "sequences; non-trivial = the fit ran at least one update step or was cancelled or ran under the pool.")
COMPONENTS = {"real": ["clustering/kmeans.py (KMeans.fit, kmeansplusplus_centers, worker functions)", "dtw_barycenter.dba_loop / dba (Python), dtw_cc.dba (C)",
                       "dtw.distance, dtw_ndim.distance, dtw.distance_matrix(_fast) with blocks (k-means++)", "C engine when use_c"],
              "stub": ["multiprocessing.Pool -> sim/simpool.py (seeded pool size, chunking, completion order; pickling isolation)",
                       "np.random / random seeds (owned by the simulator)", "monitor_distances callback (environment: cancels at a seeded iteration)",
                       "reference DTW for the nearest-mean oracle: sim/models/dtw_ref.py"]}
ASSUMPTIONS = ["every series is handed over as a contiguous array or (three times in seven) as a strided / reversed / Fortran-ordered view of the same numbers",
               "one history in three: the caller keeps one collection object for all fits and refills it in place between them",
               "bounds: mostly k 1..5, n = k+1..12 series of length 2..8 (one history in 10: k 4..8, n up to 25, length <= 13, max_it <= 9; one in 8: k 6..9 over k+1..k+6 short series), ndim 1..2, max_it 0..5, max_dba_it 1..3, thr in {default, 1e-4, 0.05, 0.5, 2}, data amplitude in {1, 1e-3, 1e-4}",
               "empty clusters in the returned dict are allowed (with fewer distinct series than k they are unavoidable); keys must still be exactly 0..k-1",
               "nearest-mean comparison uses rel. tol 1e-9 on the reference distances; serial vs parallel comparison is exact (float bits)"]


def gen_history(st):
    rng = st("workload")
    ndata = 1 + rng.below(2)
    ndim = rng.below(5) == 0
    data = []
    kmax = 1
    big = rng.below(10) == 0          # swarm sizing: one history in 10 is larger (more series, larger k, longer series, more iterations)
    manyk = (not big) and rng.below(8) == 0     # one history in 8: many clusters (k 6..9) over few, short series - cheap, and the only
    for _ in range(ndata):                      # place where code paths that depend on a large k run often
        k = 4 + rng.below(5) if big else (6 + rng.below(4) if manyk else 1 + rng.below(5))
        kmax = max(kmax, k)
        n = k + 6 + rng.below(12) if big else (k + 1 + rng.below(6) if manyk else k + 1 + rng.below(12 - k))
        distinct = 1 + rng.below(n) if rng.below(2) else n     # heavy duplicate rates
        equal = rng.below(2) == 0
        L0 = 2 + rng.below(12 if big else 7)
        base = []
        for _i in range(distinct):
            L = L0 if equal else 2 + rng.below(12 if big else 7)
            if ndim:
                base.append([[float(rng.below(5)), float(rng.below(3))] for _ in range(L)])
            else:
                base.append([float(rng.below(6)) if rng.below(4) else round(rng.uniform(0, 5), 2) for _ in range(L)])
        series = [copy.deepcopy(base[i]) if i < distinct else copy.deepcopy(base[rng.below(distinct)]) for i in range(n)]
        rng.shuffle(series)
        amp = rng.choice([1.0, 1.0, 1.0, 1e-3, 1e-4])      # low-amplitude data: the absolute convergence threshold bites early
        if amp != 1.0:
            series = [[[x * amp for x in p] for p in srs] if ndim else [x * amp for x in srs] for srs in series]
        data.append({"series": series, "k": k})
    nmodels = 1 + rng.below(2)
    models = []
    for mi in range(nmodels):
        opts = {}
        if rng.below(3) == 0:
            opts["window"] = 1 + rng.below(8)
        if rng.below(4) == 0:
            opts["penalty"] = rng.choice([0.1, 0.5, 1.0])
        minlen_all = min(len(x) for d in data for x in d["series"])
        if rng.below(5) == 0 and minlen_all >= 2:
            opts["psi"] = 1 + rng.below(min(2, minlen_all - 1))      # psi-relaxation, within every series
        if rng.below(3) == 0:
            opts["use_c"] = True
        elif rng.below(2):
            opts["use_c"] = False
        init = rng.choice(["kmeanspp", "kmeanspp", "random", "kmeanspp_sample"])
        models.append({"op": "new", "model": mi, "data_k": rng.below(ndata), "max_it": rng.below(10 if big else 6), "max_dba_it": 1 + rng.below(3),
                       "thr": rng.choice([None, None, 0.0001, 0.05, 0.5, 2.0]),
                       "drop_stddev": rng.choice([None, None, 1, 2, 3]), "init": init, "sample": 1 + rng.below(3), "opts": opts})
    programs = [[], []]
    for m in models:
        programs[rng.below(2)].append(m)
    for s in range(2):
        for _ in range(1 + rng.below(3)):
            mi = rng.below(nmodels)
            programs[s].append({"op": "fit", "model": mi, "npseed": rng.below(2 ** 31), "pyseed": rng.below(2 ** 31),
                                "stop_at": rng.choice([None, None, 1, 1, 2, 3]), "parallel": rng.below(2) == 0, "poolseed": rng.u64()})
    ops = sessions.interleave(st("sessions"), programs)
    lrng = st("layout")       # a stream of its own: the layouts do not shift the rest of the workload
    for d in data:
        # every series as a contiguous array or (three times in seven) as a strided / reversed / Fortran-ordered view of the same numbers
        d["layout"] = [lrng.choice(layouts.KINDS) for _ in d["series"]]
    # one history in three: the caller keeps ONE collection object for all fits and refills it in place
    return {"setup": {"data": data, "ndim": ndim, "inplace": rng.below(3) == 0}, "ops": ops}


class _Probe(logging.Handler):
    def __init__(self):
        logging.Handler.__init__(self, level=logging.DEBUG)
        self.counts = {}

    def emit(self, record):
        msg = record.getMessage()
        for key, name in (("Empty cluster", "probe:empty_cluster_repair"), ("There are only", "probe:fewer_distinct_series_than_k"),
                          ("no change in cluster assignment", "probe:stopped_by_unchanged_mask"), ("Ignored instances", "probe:outlier_drop_step")):
            if key in msg:
                if name == "probe:outlier_drop_step" and "[0" in msg and all(c in "[0, ]" for c in msg.split(":")[1].split("/")[0]):
                    continue
                self.counts[name] = self.counts.get(name, 0) + 1


_CALLER = {"buf": None}


def _series(dat, ndim):
    import numpy as np
    lay = dat.get("layout") or []
    out = [layouts.view(np.array(s, dtype=np.double), lay[i] if i < len(lay) else "c") for i, s in enumerate(dat["series"])]
    if _CALLER["buf"] is not None:
        _CALLER["buf"][:] = out      # the caller's one collection object: same list, new content
        return _CALLER["buf"]
    return out


def _mk_model(spec, k):
    from dtaidistance.clustering.kmeans import KMeans
    kw = dict(k=k, max_it=spec["max_it"], max_dba_it=spec["max_dba_it"], drop_stddev=spec["drop_stddev"], dists_options=dict(spec["opts"]),
              show_progress=False, initialize_with_kmedoids=False)
    if spec.get("thr") is not None:
        kw["thr"] = spec["thr"]
    if spec["init"] == "random":
        kw["initialize_with_kmeanspp"] = False
    elif spec["init"] == "kmeanspp_sample":
        kw["initialize_with_kmeanspp"] = True
        kw["initialize_sample_size"] = spec["sample"]
    else:
        kw["initialize_with_kmeanspp"] = True
    return KMeans(**kw)


class Monitor:
    def __init__(self, stop_at, n):
        self.stop_at = stop_at
        self.n = n
        self.calls = 0
        self.final = 0
        self.bad = None
        self.stopped = False

    def __call__(self, clusters_distances, stopped):
        if len(clusters_distances) != self.n and self.bad is None:
            self.bad = "monitor_distances got %d entries for %d series" % (len(clusters_distances), self.n)
        if stopped:
            self.final += 1
            return True
        self.calls += 1
        if self.stop_at is not None and self.calls == self.stop_at:
            self.stopped = True
            return False
        return True


def _run_fit(model, series, op, parallel, n):
    import random
    import numpy as np
    np.random.seed(op["npseed"])
    random.seed(op["pyseed"])
    mon = Monitor(op["stop_at"], n)
    if parallel:
        sim = simpool.PoolSim(rng=core.Rng(op["poolseed"]))
        with simpool.install(sim):
            res = model.fit(series, use_parallel=True, monitor_distances=mon)
        return res, mon, sim
    res = model.fit(series, use_parallel=False, monitor_distances=mon)
    return res, mon, None


def _snapshot(res, model):
    import numpy as np
    clusters, it = res
    return {"clusters": {int(k): sorted(int(x) for x in v) for k, v in clusters.items()}, "it": int(it),
            "means": [np.asarray(m, dtype=np.double).tobytes().hex() for m in model.means]}


def check_post(res, model, dat, spec, ndim, mon):
    import numpy as np
    clusters, performed_it = res
    k, n = dat["k"], len(dat["series"])
    if sorted(clusters.keys()) != list(range(k)):
        return {"class": "keys", "detail": "cluster keys %r, expected 0..%d" % (sorted(clusters.keys()), k - 1)}
    allidx = [x for v in clusters.values() for x in v]
    if sorted(int(x) for x in allidx) != list(range(n)):
        return {"class": "partition", "detail": "clusters %r do not partition 0..%d" % ({kk: sorted(v) for kk, v in clusters.items()}, n - 1)}
    means = model.means
    if means is None or len(means) != k:
        return {"class": "means", "detail": "%r means for k=%d" % (None if means is None else len(means), k)}
    refm = []
    for mi, m in enumerate(means):
        a = np.asarray(m, dtype=np.double)
        if a.size == 0 or (ndim and (a.ndim != 2 or a.shape[1] != 2)) or (not ndim and a.ndim != 1):
            return {"class": "means", "detail": "mean %d has shape %r" % (mi, a.shape)}
        if not np.all(np.isfinite(a)):
            return {"class": "means-not-finite", "detail": "mean %d is %r" % (mi, a.tolist()[:6])}
        refm.append(a.tolist())
    if performed_it > spec["max_it"] + 1:
        return {"class": "performed_it", "detail": "performed_it=%d with max_it=%d" % (performed_it, spec["max_it"])}
    opts = spec["opts"]
    for c, members in clusters.items():
        for i in members:
            s = dat["series"][int(i)]
            p_ = int(opts.get("psi", 0) or 0)
            ds = [dtw_ref.distance(s, m, window=opts.get("window"), penalty=opts.get("penalty", 0.0), psi=(p_, p_, p_, p_), ndim=ndim) for m in refm]
            best = min(ds)
            if ds[c] > best * (1 + 1e-9) + 1e-12:
                return {"class": "not-nearest-mean", "detail": "series %d is in cluster %d at reference distance %r but mean %d is at %r" % (i, c, ds[c], ds.index(best), best)}
    if mon.final != 1:
        return {"class": "monitor-final", "detail": "monitor_distances called %d times with the final flag" % mon.final}
    if mon.bad:
        return {"class": "monitor-args", "detail": mon.bad}
    return None


def execute(history):
    setup = history["setup"]
    ndim = setup["ndim"]
    models = {}
    viols = []
    cnt = {}
    obs = []
    interesting = False
    logger = logging.getLogger("be.kuleuven.dtai.distance")
    probe = _Probe()
    old_level = logger.level
    logger.addHandler(probe)
    logger.setLevel(logging.DEBUG)

    def bump(k, v=1):
        cnt[k] = cnt.get(k, 0) + v

    def add(v, opi):
        if v is not None:
            v["op"] = opi
            viols.append(v)

    _CALLER["buf"] = [] if setup.get("inplace") else None
    if setup.get("inplace"):
        bump("fault:collection_object_refilled_in_place")
    try:
        for opi, op in enumerate(history["ops"]):
            kind = op["op"]
            try:
                with sessions.op_timeout(OP_WALL):
                    if kind == "new":
                        if op["data_k"] >= len(setup["data"]):
                            continue
                        k = setup["data"][op["data_k"]]["k"]
                        models[op["model"]] = {"spec": op, "obj": _mk_model(op, k), "k": k, "fits": 0}
                        bump("model:" + op["init"] + (":c" if op["opts"].get("use_c") else ":py"))
                    elif kind == "fit":
                        st = models.get(op["model"])
                        if st is None:
                            continue
                        spec = st["spec"]
                        # a model is built for one k: fit it on any data set with the same k
                        cands = [d for d in setup["data"] if d["k"] == st["k"]]
                        dat = cands[(st["fits"]) % len(cands)]
                        n = len(dat["series"])
                        if st["fits"]:
                            bump("fault:model_object_fitted_again")
                        st["fits"] += 1
                        series = _series(dat, ndim)
                        res, mon, _ = _run_fit(st["obj"], series, op, False, n)
                        bump("op:fit:serial")
                        if mon.stopped:
                            bump("fault:cancelled_by_monitor_at_iteration_%d" % op["stop_at"])
                        if res[1] > 2 or mon.stopped:
                            interesting = True
                        add(check_post(res, st["obj"], dat, spec, ndim, mon), opi)
                        snap_s = _snapshot(res, st["obj"])
                        obs.append([opi, snap_s, mon.calls])
                        if op["parallel"]:
                            series2 = _series(dat, ndim)
                            res_p, mon_p, sim = _run_fit(st["obj"], series2, op, True, n)
                            bump("op:fit:parallel_simpool")
                            interesting = True
                            for kk, vv in sim.counters.items():
                                bump("pool:" + kk, vv)
                            add(check_post(res_p, st["obj"], dat, spec, ndim, mon_p), opi)
                            snap_p = _snapshot(res_p, st["obj"])
                            obs.append([opi, "parallel", snap_p, sim.trace])
                            # The property demands the postcondition of BOTH runs (checked above), not that they are equal: a
                            # parallel branch that consumed the generators differently would still be correct.  Equality is recorded.
                            bump("info:parallel_fit_equals_serial_fit" if snap_p == snap_s else "info:parallel_fit_differs_from_serial_fit")
            except sessions.OpTimeout:
                bump("op_timeout")
                add({"class": "hang", "detail": "%s did not return within %d s" % (kind, OP_WALL)}, opi)
                break
            except Exception as exc:  # noqa
                bump("raised:%s:%s" % (kind, type(exc).__name__))
                add({"class": "exception", "detail": "%s raised %s: %s" % (kind, type(exc).__name__, str(exc)[:200])}, opi)
    finally:
        logger.removeHandler(probe)
        logger.setLevel(old_level)
    for kk, vv in probe.counts.items():
        bump(kk, vv)
    return {"violations": viols[:4], "counters": cnt, "nontrivial": interesting,
            "digest": core.hash_obj([obs, [[v["class"], v["op"]] for v in viols]])}


def signature(history, viol):
    ops = history["ops"]
    opi = viol.get("op")
    feats = []
    if opi is not None and opi < len(ops):
        op = ops[opi]
        feats.append(op["op"])
        spec = next((o for o in ops if o["op"] == "new" and o.get("model") == op.get("model")), None)
        if spec:
            feats.append("init=" + ("kmeanspp" if spec["init"].startswith("kmeanspp") else spec["init"]))
            if viol["class"] in ("means-not-finite", "exception") and spec["opts"].get("use_c"):
                feats.append("use_c")
    d = str(viol.get("detail", ""))
    if viol["class"] == "exception":
        feats.append(d.split(" raised ")[-1].split(":")[0])
        if "Fewer non-zero entries in p than size" in d:
            feats.append("kmeanspp-fewer-nonzero-weights-than-samples")
    return "C16/%s/%s" % (viol["class"], "/".join(feats))


def shrink(h):
    setup = h["setup"]
    out = []
    for di, d in enumerate(setup["data"]):
        if len(d["series"]) > d["k"] + 1:
            for drop in (len(d["series"]) - 1, 0):
                s2 = copy.deepcopy(setup)
                del s2["data"][di]["series"][drop]
                out.append({"setup": s2, "ops": copy.deepcopy(h["ops"])})
        if any(len(s) > 2 for s in d["series"]):
            s2 = copy.deepcopy(setup)
            s2["data"][di]["series"] = [s[:-1] if len(s) > 2 else s for s in s2["data"][di]["series"]]
            out.append({"setup": s2, "ops": copy.deepcopy(h["ops"])})
    for i, op in enumerate(h["ops"]):
        if op["op"] == "new":
            for key, val in (("drop_stddev", None), ("init", "kmeanspp"), ("max_it", 1), ("max_dba_it", 1), ("thr", None)):
                if op.get(key) != val:
                    ops = copy.deepcopy(h["ops"]); ops[i][key] = val
                    out.append({"setup": copy.deepcopy(setup), "ops": ops})
            for key in list(op["opts"]):
                ops = copy.deepcopy(h["ops"]); del ops[i]["opts"][key]
                out.append({"setup": copy.deepcopy(setup), "ops": ops})
        if op["op"] == "fit":
            for key, val in (("stop_at", None), ("parallel", False)):
                if op.get(key) != val:
                    ops = copy.deepcopy(h["ops"]); ops[i][key] = val
                    out.append({"setup": copy.deepcopy(setup), "ops": ops})
    return out


def history_hash(h):
    return core.hash_obj([[o.get("op"), o.get("s"), o.get("npseed"), o.get("pyseed"), o.get("stop_at"), o.get("parallel"), o.get("poolseed")] for o in h["ops"]])


def main(tier, seed):
    sessions.Runner("sim.props.c16").run(tier, seed)


def replay(path):
    sessions.Runner("sim.props.c16").replay(path)
