"""C15 — hierarchical clustering: partition built from monotone, bounded merges; tree and SciPy variants;
repeated fits and environment callbacks (DESIGN.md §4, C15).

System under simulation (all real): Hierarchical, HierarchicalTree, LinkageTree, Hooks.  The
environment's moves are the callbacks: order_hook may return ANY of the tied minima it is shown,
merge_hook may return None, (i1, i2) or (i2, i1); the simulator plays them from the seed and checks
invariants INSIDE the callbacks while the fit proceeds, against a lock-step reference model
(prototype-based agglomeration over the captured distance matrix with a live set).  Client
sessions fit several models repeatedly and alternately; models share option dicts and hook state.
"""
import copy
import math

from .. import core, sessions

PROP = "C15"
TIERS = {"quick": 40000, "thorough": 2000000}
BATCH = 500
OP_WALL = 8
NO_MINIMISE = {"hang"}
RULE = ("one evaluation = one generated history (2-3 client sessions, up to 24 ops: create Hierarchical / HierarchicalTree / LinkageTree models that "
        "share option dicts and weight lists, fit them repeatedly and alternately on several data sets, read linkage / to_dot / maxnode) with "
        "environment callbacks (order_hook picks any tied minimum, merge_hook picks either orientation or None, or the library's own weight/order "
        "hooks) played from the seed; invariants checked inside the callbacks against a lock-step reference model and over the merge history. "
        "Distinct = distinct (op kind, session) sequences; non-trivial = at least two sessions alternate at least twice.")
COMPONENTS = {"real": ["clustering/hierarchical.py (Hierarchical, HierarchicalTree, BaseTree.to_dot/maxnode, LinkageTree, Hooks)",
                       "dtw.distance_matrix_func (Python and C) for the real-distance data sets", "scipy.cluster.hierarchy.linkage (as the stated reference of LinkageTree)"],
              "stub": ["client sessions and their interleaving (seeded scheduler)", "environment callbacks order_hook / merge_hook (seeded, checked)",
                       "synthetic dists_fun returning generated matrices with ties, zeros and infinities", "reference model: live-set agglomeration in sim/props/c15.py"]}
ASSUMPTIONS = ["one history in three: the caller keeps one collection object for all fits and refills it in place (in half of those all data sets have the same size); a fit that does not ask for the distances is judged against the distances of the collection as it is at that moment",
               "bounds: mostly 2..8 series per data set (one history in 12: 9..20 series and up to ~30 ops)",
               "the tree-shape oracle is asserted only when every pairwise distance is finite (with an infinite entry the code stops merging by design)",
               "environment hooks are stateless functions of (hook seed, call number within the fit), so that a repeated fit must reproduce the first"]


def gen_history(st):
    rng = st("workload")
    ndata = 1 + rng.below(3)
    data = []
    big = rng.below(12) == 0          # swarm sizing
    # one history in three: the caller keeps ONE collection object for all its fits and refills it in place (streaming use);
    # in half of those every data set has the same number of series, so that nothing but the numbers changes between fits
    inplace = rng.below(3) == 0
    same_n = (9 + rng.below(12) if big else 2 + rng.below(7)) if (inplace and rng.below(2)) else None
    for _ in range(ndata):
        n = same_n if same_n is not None else (9 + rng.below(12) if big else 2 + rng.below(7))
        kind = rng.choice(["matrix", "matrix", "matrix", "series_py", "series_c"])
        if kind == "matrix":
            grid = rng.below(3)
            D = [[None] * n for _ in range(n)]
            for i in range(n):
                for j in range(i + 1, n):
                    if grid == 0:
                        v = float(rng.below(4))                 # heavy ties, zeros (duplicates)
                    elif grid == 1:
                        v = float(1 + rng.below(12))
                    else:
                        v = round(rng.uniform(0.1, 9.0), 2)
                    if rng.below(14) == 0:
                        v = "inf"
                    D[i][j] = v
            data.append({"kind": "matrix", "n": n, "D": D})
        else:
            series = []
            for i in range(n):
                L = 2 + rng.below(5)
                series.append([float(rng.below(4)) for _ in range(L)])
                if i and rng.below(4) == 0:
                    series[i] = list(series[rng.below(i)])
            data.append({"kind": kind, "n": n, "series": series})
    ndicts = 1 + rng.below(2)
    dicts = [({"window": 2 + rng.below(3)} if rng.below(3) == 0 else {}) for _ in range(ndicts)]
    nweights = 1 + rng.below(2)
    nmodels = 1 + rng.below(3)
    models = []
    for mi in range(nmodels):
        kind = rng.choice(["hier", "hier", "tree", "tree", "linkage"])
        md = rng.choice(["inf", "inf", float(rng.below(5)), round(rng.uniform(0.5, 6.0), 2)])
        m = {"op": "new", "model": mi, "kind": kind, "max_dist": md, "dict": rng.below(ndicts),
             "merge": rng.choice(["none", "env", "env", "lib_weight"]), "order": rng.choice(["none", "env", "env", "lib_order"]),
             "weights": rng.below(nweights), "hookseed": rng.u64(), "method": rng.choice(["complete", "single", "average"])}
        models.append(m)
    nsess = 2 + rng.below(2)
    programs = [[] for _ in range(nsess)]
    for m in models:
        programs[rng.below(nsess)].append(m)
    for s in range(nsess):
        for _ in range((4 + rng.below(8)) if big else (1 + rng.below(6))):
            k = rng.below(10)
            if k < 7:
                programs[s].append({"op": "fit", "model": rng.below(nmodels), "data": rng.below(ndata)})
            elif k < 9:
                programs[s].append({"op": "read", "model": rng.below(nmodels), "what": rng.choice(["linkage", "to_dot", "maxnode"])})
            else:
                programs[s].append({"op": "refit_twice", "model": rng.below(nmodels), "data": rng.below(ndata)})
            if rng.below(8) == 0:
                # the caller changes the limit of an existing model between fits (public attribute)
                programs[s].append({"op": "set_max_dist", "model": rng.below(nmodels), "max_dist": rng.choice(["inf", float(rng.below(6)), round(rng.uniform(0.5, 8.0), 2)])})
    ops = sessions.interleave(st("sessions"), programs)
    return {"setup": {"data": data, "dicts": dicts, "nweights": nweights, "inplace": inplace}, "ops": ops}


# ---------------------------------------------------------------------------------------------- model

class Violation(Exception):
    def __init__(self, cls, detail):
        Exception.__init__(self, detail)
        self.cls = cls
        self.detail = detail


class FitMonitor:
    """Lock-step reference model of one fit: live prototypes over the captured matrix."""

    def __init__(self, max_dist):
        self.D = None
        self.n = None
        self.live = None
        self.members = None
        self.max_dist = max_dist
        self.merges = []
        self.last = -math.inf
        self.order_calls = 0
        self.merge_calls = 0
        self.pending_order = None
        self.observed = True
        self.viol = None

    def capture(self, D):
        import numpy as np
        self.D = np.array(D, dtype=float, copy=True)
        self.n = self.D.shape[0]
        self.live = set(range(self.n))
        self.members = {i: {i} for i in range(self.n)}

    def flag(self, cls, detail):
        if self.viol is None:
            self.viol = {"class": cls, "detail": detail}

    def d(self, a, b):
        a, b = (a, b) if a < b else (b, a)
        return float(self.D[a, b])

    def current_min(self):
        best = math.inf
        for a in self.live:
            for b in self.live:
                if a < b and self.D[a, b] < best:
                    best = float(self.D[a, b])
        return best

    def on_order(self, idxs):
        self.order_calls += 1
        if self.D is None or not self.observed:
            return     # without a merge hook the model cannot know which prototypes are still live
        cm = self.current_min()
        for r, c in [tuple(int(x) for x in row) for row in idxs]:
            if r not in self.live or c not in self.live:
                if not math.isinf(cm):
                    self.flag("order-dead-prototype", "order_hook was shown pair (%d, %d) of which one is already merged away" % (r, c))
            elif self.d(r, c) != cm and not (math.isinf(cm)):
                self.flag("merge-not-minimal", "order_hook was shown pair (%d, %d) at distance %r while the closest live pair is at %r" % (r, c, self.d(r, c), cm))

    def on_merge(self, frm, to, dist):
        """Called with the library's proposal (from=i2, to=i1).  Returns nothing; orientation applied in applied()."""
        self.merge_calls += 1
        if self.D is None:
            return
        dist = float(dist)
        if frm not in self.live or to not in self.live or frm == to:
            self.flag("merge-dead-prototype", "merge of %d into %d but live prototypes are %r" % (frm, to, sorted(self.live)))
            return
        if self.d(frm, to) != dist:
            self.flag("merge-distance", "merge (%d, %d) reported at distance %r, the matrix says %r" % (frm, to, dist, self.d(frm, to)))
        cm = self.current_min()
        if dist != cm:
            self.flag("merge-not-minimal", "merge (%d, %d) at distance %r while the closest live pair is at %r" % (frm, to, dist, cm))
        if dist < self.last:
            self.flag("merge-order", "merge at distance %r after a merge at %r" % (dist, self.last))
        if dist > self.max_dist or math.isinf(dist):
            self.flag("merge-above-maxdist", "merge at distance %r with max_dist %r" % (dist, self.max_dist))
        self.last = max(self.last, dist)

    def applied(self, kept, removed, dist):
        if self.D is None or kept not in self.live or removed not in self.live:
            return
        self.live.discard(removed)
        self.members[kept] |= self.members.pop(removed)
        self.merges.append((kept, removed, float(dist)))

    def check_result(self, clusters):
        if self.D is None:
            return
        n = self.n
        seen = []
        for k, v in clusters.items():
            if k not in v:
                self.flag("prototype-key", "cluster keyed %r does not contain its key: %r" % (k, sorted(v)))
            seen.extend(v)
        if sorted(seen) != list(range(n)):
            self.flag("partition", "clusters %r do not partition 0..%d" % ({k: sorted(v) for k, v in clusters.items()}, n - 1))
            return
        exp = {k: set(v) for k, v in self.members.items()}
        got = {int(k): set(int(x) for x in v) for k, v in clusters.items()}
        if got != exp:
            self.flag("result-mismatch", "returned clusters %r, the recorded merges give %r" % ({k: sorted(v) for k, v in got.items()}, {k: sorted(v) for k, v in exp.items()}))
        protos = sorted(got)
        for i, a in enumerate(protos):
            for b in protos[i + 1:]:
                if self.d(a, b) <= self.max_dist and not math.isinf(self.d(a, b)):
                    self.flag("stopped-early", "prototypes %d and %d survive although their distance %r <= max_dist %r" % (a, b, self.d(a, b), self.max_dist))
                    return


def predict_no_hooks(D, max_dist):
    """What the algorithm must return without hooks: always merge the first minimal live pair in row-major order,
    keeping the row index."""
    import numpy as np
    n = D.shape[0]
    live = set(range(n))
    members = {i: {i} for i in range(n)}
    merges = 0
    while len(live) > 1:
        best, pair = math.inf, None
        for a in sorted(live):
            for b in sorted(live):
                if a < b and D[a, b] < best:
                    best, pair = float(D[a, b]), (a, b)
        if pair is None or best > max_dist or math.isinf(best):
            break
        a, b = pair
        live.discard(b)
        members[a] |= members.pop(b)
        merges += 1
    return members


# ---------------------------------------------------------------------------------------------- execution

def _fit_once(mstate, dat, setup, bump):
    """Run one fit of a model on a data set under a fresh monitor.  Returns (monitor, result, linkage snapshot)."""
    import numpy as np
    spec = mstate["spec"]
    max_dist = math.inf if spec["max_dist"] == "inf" or spec["kind"] == "tree" else float(spec["max_dist"])
    mon = FitMonitor(max_dist)
    mon.observed = spec["merge"] != "none"
    mstate["mon"] = mon
    mstate["callno"] = 0
    if dat["kind"] == "matrix":
        series = [[0.0]] * dat["n"]
    else:
        series = [np.array(s, dtype=np.double) for s in dat["series"]]
    if setup.get("inplace"):
        # the caller's one collection object, refilled in place: same object (same id), new content
        buf = _CALLER["buf"]
        buf[:] = series
        series = buf
        bump("fault:collection_object_refilled_in_place")
    mstate["cur"] = dat
    mstate["series"] = series
    res = mstate["obj"].fit(series)
    if mon.D is None:
        # The fit did not ask for the distances (a cache inside the model, say).  What the result is judged against are the
        # distances of the collection AS IT IS NOW, so they are computed here through the same function and options.
        bump("info:fit_did_not_call_dists_fun")
        mstate["dists_fun"](series, **mstate["dists_dict"])
    return mon, res


_CALLER = {"buf": []}


def _make_model(spec, setup, live_dicts, weight_lists, mstates):
    import numpy as np
    from dtaidistance import dtw
    from dtaidistance.clustering import hierarchical as H
    state = {"spec": spec, "mon": None, "cur": None, "callno": 0}

    def dists_fun(series, **opts):
        dat = state["cur"]
        state["opts_seen"] = dict(opts)
        if dat["kind"] == "matrix":
            n = dat["n"]
            D = np.full((n, n), np.inf)
            for i in range(n):
                for j in range(i + 1, n):
                    D[i, j] = np.inf if dat["D"][i][j] == "inf" else float(dat["D"][i][j])
        else:
            fn = dtw.distance_matrix_func(use_c=(dat["kind"] == "series_c"), parallel=False, show_progress=False)
            D = fn(series, **opts)
        if state["mon"] is not None:
            state["mon"].capture(D)
        return D

    weights = weight_lists[spec["weights"]]

    def env_order(idxs):
        mon = state["mon"]
        mon.on_order(idxs)
        state["callno"] += 1
        k = core.derive(spec["hookseed"], "order", state["callno"]) % idxs.shape[0]
        return idxs[k, :]

    def env_merge(frm, to, dist):
        mon = state["mon"]
        mon.on_merge(int(frm), int(to), dist)
        state["callno"] += 1
        k = core.derive(spec["hookseed"], "merge", state["callno"]) % 3
        # library semantics: result (a, b) means "keep a, remove b"; None keeps `to`
        if k == 0:
            kept, removed, ret = int(to), int(frm), None
        elif k == 1:
            kept, removed, ret = int(to), int(frm), (int(to), int(frm))
        else:
            kept, removed, ret = int(frm), int(to), (int(frm), int(to))
        if spec["kind"] == "tree":
            # HierarchicalTree wraps the user's hook and does not pass its answer on: the proposal (keep `to`) stands
            kept, removed = int(to), int(frm)
        mon.applied(kept, removed, dist)
        return ret

    def observe_merge_only(frm, to, dist):
        mon = state["mon"]
        mon.on_merge(int(frm), int(to), dist)
        mon.applied(int(to), int(frm), dist)
        return None

    merge_hook = None
    order_hook = None
    if spec["merge"] == "env":
        merge_hook = env_merge
    elif spec["merge"] == "lib_weight":
        def lib_merge(frm, to, dist):
            mon = state["mon"]
            mon.on_merge(int(frm), int(to), dist)
            inner = H.Hooks.create_weighthook(weights, state["series"])
            r = inner(int(frm), int(to), dist)     # NB: the library calls merge_hook(i2, i1, d) and reads the result as (i1, i2)
            if spec["kind"] == "tree":
                mon.applied(int(to), int(frm), dist)
            else:
                mon.applied(int(r[0]), int(r[1]), dist)
            return r
        merge_hook = lib_merge
    elif spec["merge"] == "none" and spec["kind"] != "linkage":
        merge_hook = None
    if spec["order"] == "env":
        order_hook = env_order
    elif spec["order"] == "lib_order":
        inner_o = H.Hooks.create_orderhook(weights)

        def lib_order(idxs):
            state["mon"].on_order(idxs)
            return inner_o(idxs)
        order_hook = lib_order
    state["user_merge_hook"] = merge_hook
    d = live_dicts[spec["dict"]]
    state["dists_fun"] = dists_fun
    state["dists_dict"] = d
    if spec["kind"] == "hier":
        state["obj"] = H.Hierarchical(dists_fun, d, max_dist=(math.inf if spec["max_dist"] == "inf" else float(spec["max_dist"])),
                                      merge_hook=merge_hook, order_hook=order_hook, show_progress=False)
    elif spec["kind"] == "tree":
        state["obj"] = H.HierarchicalTree(dists_fun=dists_fun, dists_options=d, max_dist=(math.inf if spec["max_dist"] == "inf" else float(spec["max_dist"])),
                                          merge_hook=merge_hook, order_hook=order_hook, show_progress=False)
    else:
        state["obj"] = H.LinkageTree(dists_fun, d, method=spec["method"])
    return state


def _rows(linkage):
    """The linkage as a list of tuples of plain floats, whatever container the model keeps it in (a list of tuples, an array)."""
    return [tuple(float(x) for x in row) for row in linkage]


def _check_fit(state, dat, res, add, opi, bump):
    import numpy as np
    spec = state["spec"]
    mon = state["mon"]
    if spec["kind"] == "linkage":
        from scipy.cluster.hierarchy import linkage
        D = mon.D
        n = D.shape[0]
        cond = [D[i, j] for i in range(n) for j in range(i + 1, n)]
        if any(math.isinf(x) for x in cond):
            bump("linkage_skipped_inf")
            return
        exp = linkage(np.array(cond), method=spec["method"], metric="euclidean")
        got = np.asarray(res)
        if got.shape != exp.shape or not np.allclose(got, exp, rtol=1e-12, atol=0):
            add({"class": "linkage-mismatch", "detail": "LinkageTree.fit = %r, scipy on the same condensed distances = %r" % (got.tolist()[:3], exp.tolist()[:3])}, opi)
        return
    if mon.viol is not None:
        add(dict(mon.viol), opi)
        return
    observed = spec["merge"] != "none"
    if observed:
        mon.check_result(res)
    else:
        # no merge hook: nothing observable during the fit; the result is fully determined
        exp = predict_no_hooks(mon.D, mon.max_dist) if spec["order"] == "none" else None
        got = {int(k): set(int(x) for x in v) for k, v in res.items()}
        seen = sorted(x for v in got.values() for x in v)
        if seen != list(range(mon.n)):
            mon.flag("partition", "clusters %r do not partition 0..%d" % ({k: sorted(v) for k, v in got.items()}, mon.n - 1))
        for k, v in got.items():
            if k not in v:
                mon.flag("prototype-key", "cluster keyed %r does not contain its key" % k)
        # Which of several tied pairs is merged and which member survives as prototype is the implementation's choice (the
        # property fixes neither): agreement with the first-minimal-pair / keep-the-row prediction is recorded, not demanded.
        if exp is not None:
            bump("info:no_hook_result_equals_first_minimal_pair_prediction" if got == exp else "info:no_hook_result_differs_from_first_minimal_pair_prediction")
        protos = sorted(got)
        for i, a in enumerate(protos):
            for b in protos[i + 1:]:
                if mon.d(a, b) <= mon.max_dist and not math.isinf(mon.d(a, b)):
                    mon.flag("stopped-early", "prototypes %d and %d survive although their distance %r <= max_dist %r" % (a, b, mon.d(a, b), mon.max_dist))
    if mon.viol is not None:
        add(dict(mon.viol), opi)
        return
    if spec["kind"] == "tree":
        tree = state["obj"]
        n = mon.n
        link = _rows(tree.linkage)
        if tree._model.merge_hook is not state["user_merge_hook"]:
            # how the tree variant observes the merges is its own business; what a wrapper left behind would break (merges
            # recorded twice on the next fit) is what the tree-shape oracle of the next fit reports
            bump("info:tree_fit_left_another_merge_hook_installed")
        allfinite = all(not math.isinf(mon.d(a, b)) for a in range(n) for b in range(a + 1, n))
        if allfinite:
            if len(link) != n - 1:
                add({"class": "tree-shape", "detail": "%d linkage rows for %d series" % (len(link), n)}, opi)
                return
            children = [int(x) for row in link for x in row[:2]]
            if sorted(children) != list(range(2 * n - 2)):
                add({"class": "tree-shape", "detail": "children %r are not each of 0..%d exactly once" % (sorted(children), 2 * n - 3)}, opi)
                return
            # root reaches all leaves
            def leaves(node):
                if node < n:
                    return {node}
                a, b = int(link[node - n][0]), int(link[node - n][1])
                return leaves(a) | leaves(b)
            if n > 1 and leaves(2 * n - 2) != set(range(n)):
                add({"class": "tree-shape", "detail": "the root does not reach every series"}, opi)
                return
            dists = [float(row[2]) for row in link]
            if any(b < a for a, b in zip(dists, dists[1:])):
                add({"class": "merge-order", "detail": "linkage distances %r are not non-decreasing" % dists}, opi)
        elif len(link) > n - 1:
            add({"class": "tree-shape", "detail": "%d linkage rows for %d series" % (len(link), n)}, opi)


def execute(history):
    setup = history["setup"]
    live_dicts = copy.deepcopy(setup["dicts"])
    weight_lists = [None] * setup["nweights"]
    models = {}
    viols = []
    cnt = {}
    obs = []

    def bump(k, v=1):
        cnt[k] = cnt.get(k, 0) + v

    def add(v, opi):
        if v is not None:
            v["op"] = opi
            viols.append(v)

    _CALLER["buf"] = []
    maxn = max(d["n"] for d in setup["data"])
    for w in range(setup["nweights"]):
        weight_lists[w] = [1.0] * maxn
    first_results = {}
    for opi, op in enumerate(history["ops"]):
        kind = op["op"]
        try:
          with sessions.op_timeout(OP_WALL):
              if kind == "new":
                  if op["dict"] >= len(live_dicts) or op["weights"] >= len(weight_lists):
                      continue
                  models[op["model"]] = _make_model(op, setup, live_dicts, weight_lists, models)
                  bump("model:" + op["kind"])
                  if sum(1 for m in models.values() if m["spec"]["dict"] == op["dict"]) >= 2:
                      bump("fault:options_dict_shared_between_models")
              elif kind in ("fit", "refit_twice"):
                  st = models.get(op["model"])
                  if st is None or op["data"] >= len(setup["data"]):
                      bump("skipped_fit")
                      continue
                  dat = setup["data"][op["data"]]
                  spec = st["spec"]
                  if spec["kind"] == "linkage" and dat["kind"] == "matrix" and any(x == "inf" for row in dat["D"] for x in row):
                      bump("skipped_linkage_with_inf")      # SciPy itself rejects non-finite condensed distances
                      continue
                  stateful = spec["merge"] == "lib_weight" or spec["order"] == "lib_order"
                  if st.get("fits"):
                      bump("fault:model_object_fitted_again")
                  st["fits"] = st.get("fits", 0) + 1
                  mon, res = _fit_once(st, dat, setup, bump)
                  bump("op:fit:" + spec["kind"])
                  if mon.order_calls:
                      bump("env:order_hook_calls", mon.order_calls)
                  if mon.merge_calls:
                      bump("env:merge_hook_calls", mon.merge_calls)
                  _check_fit(st, dat, res, add, opi, bump)
                  if spec["kind"] == "tree":
                      st["last_linkage"] = _rows(st["obj"].linkage)
                  snap = core.digest_value({"res": {int(k): sorted(int(x) for x in v) for k, v in res.items()} if isinstance(res, dict) else res,
                                            "linkage": [[float(x) for x in row] for row in st["obj"].linkage] if spec["kind"] != "hier" else None})
                  obs.append([opi, snap, mon.merges])
                  if kind == "refit_twice" and not stateful:
                      # the same model, the same data, stateless hooks: a second fit must reproduce the first, and a fresh model too
                      mon2, res2 = _fit_once(st, dat, setup, bump)
                      snap2 = core.digest_value({"res": {int(k): sorted(int(x) for x in v) for k, v in res2.items()} if isinstance(res2, dict) else res2,
                                                 "linkage": [[float(x) for x in row] for row in st["obj"].linkage] if spec["kind"] != "hier" else None})
                      bump("op:refit")
                      if snap2 != snap:
                          add({"class": "refit-differs", "detail": "second fit of the same %s model on the same data: %r, first fit: %r" % (spec["kind"], str(snap2)[:200], str(snap)[:200])}, opi)
                      fresh = _make_model(spec, setup, [copy.deepcopy(d) for d in setup["dicts"]], [[1.0] * maxn for _ in weight_lists], {})
                      mon3, res3 = _fit_once(fresh, dat, setup, bump)
                      snap3 = core.digest_value({"res": {int(k): sorted(int(x) for x in v) for k, v in res3.items()} if isinstance(res3, dict) else res3,
                                                 "linkage": [[float(x) for x in row] for row in fresh["obj"].linkage] if spec["kind"] != "hier" else None})
                      if snap3 != snap:
                          add({"class": "history-dependence", "detail": "fit on a reused %s model: %r, on a fresh model: %r" % (spec["kind"], str(snap)[:200], str(snap3)[:200])}, opi)
              elif kind == "set_max_dist":
                  st = models.get(op["model"])
                  if st is None or st["spec"]["kind"] != "hier":
                      continue
                  st["obj"].max_dist = math.inf if op["max_dist"] == "inf" else float(op["max_dist"])
                  st["spec"] = dict(st["spec"], max_dist=op["max_dist"])
                  bump("op:set_max_dist")
              elif kind == "read":
                  st = models.get(op["model"])
                  if st is None or st["spec"]["kind"] == "hier" or not st.get("fits"):
                      continue
                  obj = st["obj"]
                  bump("op:read:" + op["what"])
                  if op["what"] == "linkage":
                      if st["spec"]["kind"] == "tree" and _rows(obj.linkage) != st.get("last_linkage"):
                          add({"class": "linkage-changed", "detail": "linkage read later differs from the linkage right after fit"}, opi)
                  elif op["what"] == "maxnode":
                      n = st["mon"].n
                      if obj.maxnode != n - 1 + len(obj.linkage):
                          add({"class": "maxnode", "detail": "maxnode %r for %d series and %d merges" % (obj.maxnode, n, len(obj.linkage))}, opi)
                  elif op["what"] == "to_dot":
                      n = st["mon"].n
                      if len(obj.linkage) == n - 1 and n >= 2:
                          s = obj.to_dot()
                          edges = s.count("->")
                          if edges != 2 * (n - 1):
                              add({"class": "to_dot", "detail": "to_dot has %d edges for %d merges" % (edges, n - 1)}, opi)
        except sessions.OpTimeout:
            bump("op_timeout")
            add({"class": "hang", "detail": "%s did not return within %d s" % (kind, OP_WALL)}, opi)
            break
        except Exception as exc:  # noqa
            bump("raised:%s:%s" % (kind, type(exc).__name__))
            add({"class": "exception", "detail": "%s raised %s: %s" % (kind, type(exc).__name__, str(exc)[:200])}, opi)
    return {"violations": viols[:4], "counters": cnt, "nontrivial": sessions.sessions_interleaved(history),
            "digest": core.hash_obj([obs, [[v["class"], v["op"]] for v in viols]])}


def signature(history, viol):
    ops = history["ops"]
    opi = viol.get("op")
    feats = []
    if opi is not None and opi < len(ops):
        op = ops[opi]
        feats.append(op["op"])
        spec = next((o for o in ops if o["op"] == "new" and o.get("model") == op.get("model")), None)
        if spec:
            feats += [spec["kind"], "merge=" + spec["merge"], "order=" + spec["order"]]
        if op["op"] in ("fit", "refit_twice") and op.get("data", 0) < len(history["setup"]["data"]):
            feats.append(history["setup"]["data"][op["data"]]["kind"])
    return "C15/%s/%s" % (viol["class"], "/".join(feats))


def shrink(h):
    setup = h["setup"]
    out = []
    for di, d in enumerate(setup["data"]):
        if d["n"] > 2:
            s2 = copy.deepcopy(setup)
            dd = s2["data"][di]
            dd["n"] -= 1
            if dd["kind"] == "matrix":
                dd["D"] = [row[:-1] for row in dd["D"][:-1]]
            else:
                dd["series"] = dd["series"][:-1]
            out.append({"setup": s2, "ops": copy.deepcopy(h["ops"])})
        if d["kind"] != "matrix":
            pass
    for i, op in enumerate(h["ops"]):
        if op["op"] == "new":
            for key, val in (("merge", "none"), ("order", "none"), ("max_dist", "inf"), ("kind", "hier")):
                if op.get(key) != val:
                    ops = copy.deepcopy(h["ops"]); ops[i][key] = val
                    out.append({"setup": copy.deepcopy(setup), "ops": ops})
        if op["op"] == "refit_twice":
            ops = copy.deepcopy(h["ops"]); ops[i]["op"] = "fit"
            out.append({"setup": copy.deepcopy(setup), "ops": ops})
    if len({o.get("s") for o in h["ops"]}) > 1:
        ops = copy.deepcopy(h["ops"])
        for o in ops:
            o["s"] = 0
        out.append({"setup": copy.deepcopy(setup), "ops": ops})
    return out


def main(tier, seed):
    sessions.Runner("sim.props.c15").run(tier, seed)


def replay(path):
    sessions.Runner("sim.props.c15").replay(path)
