"""simpool — a simulated multiprocessing.Pool (DESIGN.md §3.2).

The repository creates its pools with `mp.Pool()` looked up at call time, so the seam is the
attribute `multiprocessing.Pool` (and `multiprocessing.pool.Pool`): `install(sim)` replaces it for
the duration of a run, no hook in the repository is needed.

What is simulated, because results can depend on it:
  * process isolation of arguments and results: every task batch is pickled as ONE unit and the
    results are pickled back (objects shared within a batch stay shared, objects in different
    batches do not);
  * chunking: CPython's chunksize = ceil(len / (4*workers)) unless the caller gives one;
  * worker count, which worker takes which batch, and the order in which batches complete:
    decided by the seeded scheduler; `map` reassembles by index, `imap_unordered` yields in
    completion order;
  * legal oddities: a worker that retires (never takes another batch), a pool created and closed
    without work.
Every decision is recorded in `sim.trace`; a trace can be replayed without the PRNG.

backend="inproc": tasks run in this process (module globals shared with the parent: deviation).
backend="fork":   every worker is a real os.fork()ed child created when the pool is created, fed
                  over pipes one batch at a time by the same scheduler — isolation is real, the
                  schedule is still the seed's.
"""
import multiprocessing
import multiprocessing.pool
import os
import pickle
import struct
import sys
import traceback


class SimPoolError(Exception):
    pass


class PoolSim:
    """Holds the seeded decisions of all pools created during one run."""

    def __init__(self, rng=None, replay=None, backend="inproc", cpu_count=None):
        self.rng = rng
        self.replay = list(replay) if replay is not None else None
        self.replay_pos = 0
        self.backend = backend
        self.trace = []          # one entry per map-like call
        self.counters = {"pools": 0, "maps": 0, "batches": 0, "out_of_order": 0, "retired_workers": 0,
                         "pool_w1": 0, "pool_w_gt_tasks": 0, "empty_pools": 0, "tasks": 0, "exceptions": 0}
        self.cpu_count = cpu_count or (os.cpu_count() or 1)
        self.forced_workers = None

    # -- decisions -----------------------------------------------------------------------------
    def choose_workers(self, processes, ntasks_hint=None):
        if processes is not None:
            return max(1, int(processes))
        if self.forced_workers is not None:
            return self.forced_workers
        if self.replay is not None:
            if self.replay_pos < len(self.replay):
                return int(self.replay[self.replay_pos].get("W", 1))
            return 1
        k = self.rng.below(8)
        if k == 0:
            return 1
        if k == 1:
            return 2
        if k == 2:
            return 3
        if k == 3:
            return self.cpu_count
        if k == 4:
            return 17
        return 1 + self.rng.below(8)

    def plan(self, W, nbatches):
        """Return (assignment list [(batch, worker)], completion order) for nbatches batches."""
        if self.replay is not None:
            ent = self.replay[self.replay_pos] if self.replay_pos < len(self.replay) else {}
            self.replay_pos += 1
            order = [b for b in ent.get("order", []) if 0 <= b < nbatches]
            seen = set(order)
            order += [b for b in range(nbatches) if b not in seen]
            workers = ent.get("workers", [])
            workers = [(workers[b] if b < len(workers) else 0) % W for b in range(nbatches)]
            return workers, order, int(ent.get("retired", 0))
        rng = self.rng
        cap = W
        retired = 0
        idle = list(range(W))
        inflight = []     # (batch, worker)
        nxt = 0
        order = []
        workers = [0] * nbatches
        while nxt < nbatches or inflight:
            # dispatch to idle workers, in queue order
            while nxt < nbatches and idle and len(inflight) < cap:
                w = idle.pop(rng.below(len(idle)))
                workers[nxt] = w
                inflight.append((nxt, w))
                nxt += 1
            if rng.below(16) == 0 and cap > 1 and idle:
                # a worker retires: legal (maxtasksperchild, slow start-up); capacity shrinks
                idle.pop(rng.below(len(idle)))
                cap -= 1
                retired += 1
            # one in-flight batch completes
            k = rng.below(len(inflight)) if rng.below(4) else 0
            b, w = inflight.pop(k)
            order.append(b)
            idle.append(w)
        return workers, order, retired


_current = None


def current():
    return _current


class _Result:
    def __init__(self, value=None, exc=None):
        self._value = value
        self._exc = exc

    def get(self, timeout=None):
        if self._exc is not None:
            raise self._exc
        return self._value

    def wait(self, timeout=None):
        return None

    def ready(self):
        return True

    def successful(self):
        return self._exc is None


def _mapstar(args):
    func, batch = args
    return [func(x) for x in batch]


def _starmapstar(args):
    func, batch = args
    return [func(*x) for x in batch]


class _ForkWorker:
    def __init__(self):
        r1, w1 = os.pipe()
        r2, w2 = os.pipe()
        pid = os.fork()
        if pid == 0:
            os.close(w1)
            os.close(r2)
            try:
                fin = os.fdopen(r1, "rb")
                fout = os.fdopen(w2, "wb")
                while True:
                    hdr = fin.read(8)
                    if len(hdr) < 8:
                        break
                    n = struct.unpack("<Q", hdr)[0]
                    if n == 0:
                        break      # explicit quit (EOF alone is not reliable: sibling workers inherit copies of the pipe ends)
                    payload = fin.read(n)
                    try:
                        runner, arg = pickle.loads(payload)
                        res = ("ok", runner(arg))
                    except BaseException as exc:  # noqa
                        res = ("exc", exc)
                    try:
                        out = pickle.dumps(res)
                    except BaseException as exc:  # noqa
                        out = pickle.dumps(("exc", SimPoolError("unpicklable result: %r" % (exc,))))
                    fout.write(struct.pack("<Q", len(out)))
                    fout.write(out)
                    fout.flush()
            finally:
                os._exit(0)
        os.close(r1)
        os.close(w2)
        self.pid = pid
        self.fin = os.fdopen(r2, "rb")
        self.fout = os.fdopen(w1, "wb")

    def run(self, payload):
        self.fout.write(struct.pack("<Q", len(payload)))
        self.fout.write(payload)
        self.fout.flush()
        hdr = self.fin.read(8)
        if len(hdr) < 8:
            raise SimPoolError("fork worker died")
        n = struct.unpack("<Q", hdr)[0]
        return pickle.loads(self.fin.read(n))

    def close(self):
        try:
            self.fout.write(struct.pack("<Q", 0))
            self.fout.flush()
        except (OSError, ValueError):
            pass
        try:
            self.fout.close()
            self.fin.close()
        except OSError:
            pass
        try:
            os.waitpid(self.pid, 0)
        except ChildProcessError:
            pass


class SimPool:
    def __init__(self, processes=None, initializer=None, initargs=(), maxtasksperchild=None, context=None):
        sim = _current
        if sim is None:
            raise SimPoolError("SimPool used without an installed PoolSim")
        self._sim = sim
        self._W = sim.choose_workers(processes)
        self._closed = False
        self._used = False
        self._initializer = initializer
        self._initargs = initargs
        sim.counters["pools"] += 1
        if self._W == 1:
            sim.counters["pool_w1"] += 1
        self._fw = None
        if sim.backend == "fork":
            sys.stdout.flush()
            sys.stderr.flush()
            self._fw = [_ForkWorker() for _ in range(self._W)]
        if initializer is not None and sim.backend == "inproc":
            initializer(*initargs)

    # context manager -------------------------------------------------------------------------
    def __enter__(self):
        return self

    def __exit__(self, *a):
        self.terminate()
        return False

    def close(self):
        self._closed = True
        self._cleanup()

    def terminate(self):
        self._closed = True
        self._cleanup()

    def join(self):
        return None

    def _cleanup(self):
        if not self._used:
            self._sim.counters["empty_pools"] += 1
            self._used = True
        if self._fw:
            for w in self._fw:
                w.close()
            self._fw = None

    # core ------------------------------------------------------------------------------------
    def _run_batches(self, runner, func, items, chunksize, unordered=False):
        if self._closed:
            raise ValueError("Pool not running")
        sim = self._sim
        self._used = True
        items = list(items)
        n = len(items)
        W = self._W
        if chunksize is None:
            chunksize, extra = divmod(n, W * 4)
            if extra:
                chunksize += 1
        if n == 0:
            chunksize = 0
        batches = [items[i:i + chunksize] for i in range(0, n, chunksize)] if chunksize else []
        nb = len(batches)
        if W > max(1, n):
            sim.counters["pool_w_gt_tasks"] += 1
        workers, order, retired = sim.plan(W, nb)
        sim.counters["maps"] += 1
        sim.counters["batches"] += nb
        sim.counters["tasks"] += n
        sim.counters["retired_workers"] += retired
        if order != sorted(order):
            sim.counters["out_of_order"] += 1
        sim.trace.append({"W": W, "chunksize": chunksize, "nbatches": nb, "order": list(order), "workers": list(workers), "retired": retired})
        results = [None] * nb
        first_exc = None
        completion = []
        for b in order:
            payload = pickle.dumps((runner, (func, tuple(batches[b]))))
            if self._fw is not None:
                status, val = self._fw[workers[b] % len(self._fw)].run(payload)
            else:
                try:
                    r, arg = pickle.loads(payload)
                    val = pickle.loads(pickle.dumps(r(arg)))
                    status = "ok"
                except Exception as exc:  # noqa
                    status, val = "exc", exc
            if status == "exc":
                sim.counters["exceptions"] += 1
                if first_exc is None:
                    first_exc = val
            else:
                results[b] = val
                completion.append(b)
        if first_exc is not None:
            return None, first_exc
        if unordered:
            flat = [x for b in completion for x in results[b]]
        else:
            flat = [x for r in results for x in r]
        return flat, None

    def map(self, func, iterable, chunksize=None):
        return self.map_async(func, iterable, chunksize).get()

    def map_async(self, func, iterable, chunksize=None, callback=None, error_callback=None):
        val, exc = self._run_batches(_mapstar, func, iterable, chunksize)
        if exc is None and callback:
            callback(val)
        if exc is not None and error_callback:
            error_callback(exc)
        return _Result(val, exc)

    def starmap(self, func, iterable, chunksize=None):
        return self.starmap_async(func, iterable, chunksize).get()

    def starmap_async(self, func, iterable, chunksize=None, callback=None, error_callback=None):
        val, exc = self._run_batches(_starmapstar, func, iterable, chunksize)
        return _Result(val, exc)

    def imap(self, func, iterable, chunksize=1):
        val, exc = self._run_batches(_mapstar, func, iterable, chunksize)
        if exc is not None:
            raise exc
        return iter(val)

    def imap_unordered(self, func, iterable, chunksize=1):
        val, exc = self._run_batches(_mapstar, func, iterable, chunksize, unordered=True)
        if exc is not None:
            raise exc
        return iter(val)

    def apply(self, func, args=(), kwds=None):
        return self.apply_async(func, args, kwds).get()

    def apply_async(self, func, args=(), kwds=None, callback=None, error_callback=None):
        kwds = kwds or {}
        val, exc = self._run_batches(_applystar, func, [(args, kwds)], 1)
        if exc is None and callback:
            callback(val[0])
        return _Result(None if exc else val[0], exc)


def _applystar(a):
    func, batch = a
    return [func(*args, **kwds) for args, kwds in batch]


class _Installed:
    def __init__(self, sim):
        self.sim = sim

    def __enter__(self):
        global _current
        if _current is not None:
            raise SimPoolError("nested PoolSim install")
        _current = self.sim
        self.saved = (multiprocessing.Pool, multiprocessing.pool.Pool, multiprocessing.pool.ThreadPool)
        multiprocessing.Pool = SimPool
        multiprocessing.pool.Pool = SimPool
        multiprocessing.pool.ThreadPool = SimPool
        return self.sim

    def __exit__(self, *a):
        global _current
        multiprocessing.Pool, multiprocessing.pool.Pool, multiprocessing.pool.ThreadPool = self.saved
        _current = None
        return False


def install(sim):
    return _Installed(sim)
