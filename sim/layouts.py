"""Memory layouts of one array: the same numbers as a contiguous array or as a non-contiguous view (every second element of a
larger array, a reversed view, Fortran order for two-dimensional data).  Used by the workloads of C13, C14 and C18: what the
library computes must not depend on it."""
KINDS = ["c", "c", "c", "c", "strided", "reversed", "fortran"]


def view(a, kind):
    import numpy as np
    if kind == "fortran" and a.ndim == 2:
        return np.asfortranarray(a)
    if kind in ("strided", "fortran"):
        base = np.full((2 * a.shape[0],) + a.shape[1:], 7.75)
        base[::2] = a
        return base[::2]
    if kind == "reversed":
        return np.ascontiguousarray(a[::-1])[::-1]
    return a
