"""Entry point of all checks:  ./check <Cxx> [--tier quick|thorough] [--replay FILE] [--selftest]"""
import argparse
import importlib
import os
import sys
import traceback

HERE = os.path.dirname(os.path.abspath(__file__))
VERIF = os.path.dirname(HERE)


def reexec_if_needed():
    # one fixed hash seed: dict/set iteration order of str keys must not depend on the interpreter instance
    if os.environ.get("PYTHONHASHSEED") is None or os.environ.get("MALLOC_PERTURB_") is None:
        env = dict(os.environ)
        env.setdefault("PYTHONHASHSEED", "0")
        # deterministic junk in freed / fresh heap blocks (glibc), see core.fanout_isolated
        env.setdefault("MALLOC_PERTURB_", "165")
        env.setdefault("OMP_NUM_THREADS", "1")
        env.setdefault("OPENBLAS_NUM_THREADS", "1")
        env.setdefault("MPLBACKEND", "Agg")
        os.execve(sys.executable, [sys.executable, "-u"] + sys.argv, env)


def main():
    reexec_if_needed()
    if VERIF not in sys.path:
        sys.path.insert(0, VERIF)
    if len(sys.argv) >= 2 and sys.argv[1] == "--worker":
        from sim import core as _core
        _core.worker_main(sys.argv[2:6])
        return
    ap = argparse.ArgumentParser()
    ap.add_argument("prop")
    ap.add_argument("--tier", default=os.environ.get("VERIF_TIER", "quick"), choices=["quick", "thorough"])
    ap.add_argument("--replay")
    ap.add_argument("--selftest", action="store_true")
    a = ap.parse_args()
    from sim import core
    prop = a.prop.upper()
    try:
        mod = importlib.import_module("sim.props." + prop.lower())
    except ImportError as exc:
        print("HARNESS-ERROR: no check for %s (%s)" % (prop, exc))
        sys.exit(2)
    try:
        if a.replay:
            mod.replay(a.replay)
        elif a.selftest:
            mod.selftest(core.get_seed())
        else:
            mod.main(a.tier, core.get_seed())
    except SystemExit:
        raise
    except BaseException as exc:  # noqa
        traceback.print_exc()
        print("HARNESS-ERROR: %s: %s" % (type(exc).__name__, str(exc)[:2000]))
        sys.stdout.flush()
        sys.exit(2)


if __name__ == "__main__":
    main()
