"""Build everything a check needs from /repo's CURRENT WORKING TREE (DESIGN.md §7).

The build happens in a scratch directory outside /repo and /verif, the products are moved into
/verif/.cache/<content-hash>/ (git-ignored; deleting it is always safe) and the scratch directory
is removed.  A check imports the package from the cache, never from the editable install, so an
edited /repo is what is tested.

Products:
  pkg/dtaidistance        the package with extensions built by the repo's own setup.py (gcc, -O3)
  pkg_sim/dtaidistance    same Python files; dtw_cc_omp built from clang-instrumented dd_*.c and linked
                          against the simulated OpenMP runtime; dtw_cc built by the same compiler/flags
  native/driver_c07_O0, native/driver_c07_O1   layer-A driver of C07
"""
import fcntl
import glob
import hashlib
import os
import shutil
import subprocess
import sys
import sysconfig
import time

VERIF = os.path.dirname(os.path.dirname(os.path.abspath(__file__)))
REPO = os.environ.get("VERIF_REPO", "/repo")
CACHE = os.path.join(VERIF, ".cache")
PY = sys.executable
CSRC = "src/DTAIDistanceC/DTAIDistanceC"
INSTR = "-fsanitize-coverage=trace-pc-guard,trace-loads,trace-stores"
WRAP = "-Wl,--wrap=malloc,--wrap=free,--wrap=calloc,--wrap=realloc"


class BuildError(Exception):
    pass


def _tree_files():
    out = []
    for base in ("src", ):
        for root, dirs, files in os.walk(os.path.join(REPO, base)):
            dirs[:] = sorted(d for d in dirs if d not in ("__pycache__", "build"))
            for fn in sorted(files):
                if fn.endswith((".so", ".pyc", ".o", ".pyd")):
                    continue
                p = os.path.join(root, fn)
                rel = os.path.relpath(p, REPO)
                # Cython output next to the .pyx files is generated, not source
                if rel.startswith("src/dtaidistance/") and fn.endswith(".c") and os.path.exists(p[:-2] + ".pyx"):
                    continue
                out.append(rel)
    for fn in ("setup.py", "pyproject.toml", "MANIFEST.in"):
        if os.path.exists(os.path.join(REPO, fn)):
            out.append(fn)
    return out


def tree_hash():
    h = hashlib.sha256()
    for rel in _tree_files():
        h.update(rel.encode())
        h.update(b"\0")
        with open(os.path.join(REPO, rel), "rb") as f:
            h.update(hashlib.sha256(f.read()).digest())
    for p in sorted(glob.glob(os.path.join(VERIF, "native", "*"))) + [os.path.abspath(__file__)]:
        h.update(os.path.basename(p).encode())
        with open(p, "rb") as f:
            h.update(hashlib.sha256(f.read()).digest())
    h.update(os.environ.get("VERIF_GUARD_ENV", "").encode())
    return h.hexdigest()[:20]


def _run(cmd, cwd, log, env=None, timeout=900):
    with open(log, "a") as lf:
        lf.write("$ " + " ".join(cmd) + "\n")
        lf.flush()
        p = subprocess.run(cmd, cwd=cwd, stdout=lf, stderr=subprocess.STDOUT, env=env, timeout=timeout)
    if p.returncode != 0:
        tail = ""
        try:
            with open(log) as lf:
                tail = "".join(lf.readlines()[-40:])
        except OSError:
            pass
        raise BuildError("command failed (%d): %s\n%s" % (p.returncode, " ".join(cmd), tail))


def _par(cmds, cwd, log):
    procs = []
    with open(log, "a") as lf:
        for c in cmds:
            lf.write("$ " + " ".join(c) + "\n")
        lf.flush()
        for c in cmds:
            procs.append((c, subprocess.Popen(c, cwd=cwd, stdout=lf, stderr=subprocess.STDOUT)))
        for c, p in procs:
            if p.wait() != 0:
                for _, q in procs:
                    q.wait()
                with open(log) as rf:
                    tail = "".join(rf.readlines()[-40:])
                raise BuildError("command failed: %s\n%s" % (" ".join(c), tail))


def _build_into(dest, log):
    scratch_root = os.environ.get("VERIF_SCRATCH", "/var/tmp")
    scratch = os.path.join(scratch_root, "verif-build-%d" % os.getpid())
    shutil.rmtree(scratch, ignore_errors=True)
    os.makedirs(scratch)
    try:
        # 1. copy the working tree (sources only)
        for rel in _tree_files():
            d = os.path.join(scratch, rel)
            os.makedirs(os.path.dirname(d), exist_ok=True)
            shutil.copy2(os.path.join(REPO, rel), d)
        for extra in ("README.md", "LICENSE", "requirements.txt"):
            if os.path.exists(os.path.join(REPO, extra)):
                shutil.copy2(os.path.join(REPO, extra), os.path.join(scratch, extra))
        env = dict(os.environ)
        env.pop("PYTHONPATH", None)
        # 2. the repo's own build (gcc, libgomp): Cython -> C -> extensions, in place in the scratch copy
        _run([PY, "setup.py", "build_ext", "--inplace", "-j", "8"], scratch, log, env=env)
        pkg_src = os.path.join(scratch, "src", "dtaidistance")
        if not glob.glob(os.path.join(pkg_src, "dtw_cc.*.so")) or not glob.glob(os.path.join(pkg_src, "dtw_cc_omp.*.so")):
            raise BuildError("setup.py build_ext produced no dtw_cc / dtw_cc_omp extension")
        # 3. native objects
        nat = os.path.join(scratch, "native")
        os.makedirs(nat)
        V = os.path.join(VERIF, "native")
        S = os.path.join(scratch, CSRC)
        pyinc = sysconfig.get_paths()["include"]
        cmds = []
        for opt in ("O0", "O1"):
            for f in ("dd_dtw_openmp", "dd_dtw", "dd_ed"):
                cmds.append(["clang", "-fopenmp", "-" + opt, "-DNDEBUG", "-g", "-fPIC"] + INSTR.split() +
                            ["-I" + V, "-I" + S, "-c", os.path.join(S, f + ".c"), "-o", os.path.join(nat, "%s_%s.o" % (f, opt))])
        for f in ("dd_dtw", "dd_ed"):
            cmds.append(["clang", "-O0", "-DNDEBUG", "-g", "-fPIC", "-I" + S, "-c", os.path.join(S, f + ".c"), "-o", os.path.join(nat, f + "_plain.o")])
        cmds.append(["clang", "-O2", "-g", "-fPIC", "-Wall", "-c", os.path.join(V, "simomp.c"), "-o", os.path.join(nat, "simomp.o")])
        cmds.append(["clang", "-O2", "-g", "-Wall", "-I" + V, "-I" + S, "-c", os.path.join(V, "driver_c07.c"), "-o", os.path.join(nat, "driver_c07.o")])
        cyflags = ["clang", "-O1", "-DNDEBUG", "-fPIC", "-w", "-fopenmp", "-I" + V, "-I" + S, "-I" + pyinc]
        cmds.append(cyflags + ["-c", os.path.join(pkg_src, "dtw_cc_omp.c"), "-o", os.path.join(nat, "cy_dtw_cc_omp.o")])
        cmds.append(cyflags + ["-c", os.path.join(pkg_src, "dtw_cc.c"), "-o", os.path.join(nat, "cy_dtw_cc.o")])
        _par(cmds, scratch, log)
        # thread-local storage in repo objects would be shared between coroutines: refuse rather than mis-simulate
        for f in ("dd_dtw_openmp_O0.o", "dd_dtw_O0.o", "dd_ed_O0.o"):
            out = subprocess.run(["readelf", "-S", os.path.join(nat, f)], capture_output=True, text=True).stdout
            if ".tdata" in out or ".tbss" in out:
                raise BuildError("repository object %s uses thread-local storage, which simomp cannot simulate" % f)
        ext = sysconfig.get_config_var("EXT_SUFFIX")
        links = []
        for opt in ("O0", "O1"):
            links.append(["clang", "-o", os.path.join(nat, "driver_c07_" + opt), os.path.join(nat, "driver_c07.o"), os.path.join(nat, "simomp.o")] +
                         [os.path.join(nat, "%s_%s.o" % (f, opt)) for f in ("dd_dtw_openmp", "dd_dtw", "dd_ed")] + ["-lm", WRAP])
        links.append(["clang", "-shared", "-Wl,-Bsymbolic", "-o", os.path.join(nat, "dtw_cc_omp" + ext), os.path.join(nat, "cy_dtw_cc_omp.o"), os.path.join(nat, "simomp.o")] +
                     [os.path.join(nat, "%s_O0.o" % f) for f in ("dd_dtw_openmp", "dd_dtw", "dd_ed")] + ["-lm", WRAP])
        links.append(["clang", "-shared", "-Wl,-Bsymbolic", "-o", os.path.join(nat, "dtw_cc" + ext), os.path.join(nat, "cy_dtw_cc.o"),
                      os.path.join(nat, "dd_dtw_plain.o"), os.path.join(nat, "dd_ed_plain.o"), "-lm"])
        _par(links, scratch, log)
        # 4. assemble the cache entry
        tmpdest = dest + ".tmp%d" % os.getpid()
        shutil.rmtree(tmpdest, ignore_errors=True)
        os.makedirs(os.path.join(tmpdest, "native"))
        ign = shutil.ignore_patterns("__pycache__", "*.o", "*.c", "*.pyx", "*.pxd", "jinja")
        shutil.copytree(pkg_src, os.path.join(tmpdest, "pkg", "dtaidistance"), ignore=ign)
        shutil.copytree(pkg_src, os.path.join(tmpdest, "pkg_sim", "dtaidistance"), ignore=ign)
        for name in ("dtw_cc_omp", "dtw_cc"):
            for old in glob.glob(os.path.join(tmpdest, "pkg_sim", "dtaidistance", name + ".*.so")):
                os.remove(old)
            shutil.copy2(os.path.join(nat, name + ext), os.path.join(tmpdest, "pkg_sim", "dtaidistance", name + ext))
        for opt in ("O0", "O1"):
            shutil.copy2(os.path.join(nat, "driver_c07_" + opt), os.path.join(tmpdest, "native", "driver_c07_" + opt))
        shutil.copy2(log, os.path.join(tmpdest, "build.log"))
        with open(os.path.join(tmpdest, "OK"), "w") as f:
            f.write(time.strftime("%Y-%m-%dT%H:%M:%S") + "\n")
        shutil.rmtree(dest, ignore_errors=True)
        os.rename(tmpdest, dest)
    finally:
        shutil.rmtree(scratch, ignore_errors=True)


def ensure_build(verbose=True):
    """Return the cache directory for the current working tree, building it if necessary."""
    os.makedirs(CACHE, exist_ok=True)
    h = tree_hash()
    dest = os.path.join(CACHE, h)
    if os.path.exists(os.path.join(dest, "OK")):
        try:
            os.utime(dest, None)      # mark as in use: pruning removes the least recently used entries
        except OSError:
            pass
        return dest
    with open(os.path.join(CACHE, "lock"), "w") as lk:
        fcntl.flock(lk, fcntl.LOCK_EX)
        try:
            if os.path.exists(os.path.join(dest, "OK")):
                return dest
            t0 = time.time()
            log = os.path.join(CACHE, "build-%s.log" % h)
            if os.path.exists(log):
                os.remove(log)
            if verbose:
                print("[build] building /repo working tree %s ..." % h, flush=True)
            _build_into(dest, log)
            if verbose:
                print("[build] done in %.1f s" % (time.time() - t0), flush=True)
            # keep the three most recently used entries
            import re
            entries = sorted((e for e in os.listdir(CACHE) if re.fullmatch(r"[0-9a-f]{20}", e) and os.path.isdir(os.path.join(CACHE, e))),
                             key=lambda e: os.path.getmtime(os.path.join(CACHE, e)))
            for e in entries[:-3]:
                if e != h:
                    shutil.rmtree(os.path.join(CACHE, e), ignore_errors=True)
                    try:
                        os.remove(os.path.join(CACHE, "build-%s.log" % e))
                    except OSError:
                        pass
            return dest
        finally:
            fcntl.flock(lk, fcntl.LOCK_UN)


def activate(kind="pkg"):
    """Build if needed and put the rebuilt package first on sys.path.  Must run before the first
    `import dtaidistance`."""
    d = ensure_build()
    p = os.path.join(d, kind)
    if "dtaidistance" in sys.modules:
        raise BuildError("dtaidistance imported before build.activate()")
    sys.path.insert(0, p)
    import dtaidistance  # noqa
    if not os.path.abspath(dtaidistance.__file__).startswith(os.path.abspath(p)):
        raise BuildError("wrong dtaidistance imported: %s" % dtaidistance.__file__)
    return d


if __name__ == "__main__":
    print(ensure_build())
