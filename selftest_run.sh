#!/bin/sh
# usage: selftest_run.sh <patchfile> <prop> [scale]
# Applies a patch to a scratch worktree of /repo (never to /repo itself), runs the check against it with
# evidence/replays redirected to a scratch directory, prints the tail of the output and the exit code, cleans up.
patch=$1; prop=$2; scale=${3:-0.25}
V=$(dirname "$(readlink -f "$0")")
wt=/tmp/verif-wt-$$; out=/tmp/verif-mut-out-$$
git -C /repo worktree add -q --detach $wt HEAD || exit 3
trap 'git -C /repo worktree remove --force '$wt' >/dev/null 2>&1; rm -rf '$out'' EXIT
( cd $wt && git apply "$patch" ) || { echo "patch does not apply"; exit 3; }
mkdir -p $out
VERIF_REPO=$wt VERIF_SCALE=$scale VERIF_EVIDENCE_DIR=$out VERIF_REPLAY_DIR=$out $V/check $prop > $out/log 2>&1
code=$?
tail -${TAILN:-5} $out/log
echo "exit=$code"
exit $code
