"""usage: seed_meta.py <PROP>-<tag> <detected:yes|no> "<what it needs to manifest>" "<which check classes fired / why missed>" [reported|missed: outcome of the FIRST evaluation] """
import json, sys, os, subprocess
name, detected, needs, how = sys.argv[1:5]
first = sys.argv[5] if len(sys.argv) > 5 else ("reported" if detected == "yes" else "missed")
d = os.path.join("/verif/seeded", name)
meta = {"property": name.split("-")[0], "source": "independent sub-agent given only the property text and its own scratch worktree of /repo",
        "base_commit": subprocess.run(["git", "-C", "/repo", "rev-parse", "--short", "HEAD"], capture_output=True, text=True).stdout.strip(),
        "needs_to_manifest": needs,
        "confirmed": {"demo_on_unchanged_tree": "exit 0", "demo_with_change": "exit 1", "how": "tools/eval_seed.sh (demo in agent worktree with the change; demo against the /verif build of unchanged /repo; whole pinned suite with the change via tools/baseline_check.py BASELINE_REPO=<worktree>)"},
        "check_result": {"detected": detected == "yes", "first_evaluation": first, "detail": how, "command": "selftest_run.sh seeded/%s/patch.diff %s" % (name, name.split("-")[0])}}
json.dump(meta, open(os.path.join(d, "meta.json"), "w"), indent=1)
print("wrote", os.path.join(d, "meta.json"))
