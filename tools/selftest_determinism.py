"""Determinism self-test (DESIGN.md §8): every check is run several times over the same seeds -
fresh interpreters, another PYTHONHASHSEED, another worker count, (C07) ASLR off - and the digests of
everything observed (results of every op / event-level access and schedule digests of every simulated
run) must be identical.  Usage: tools/selftest_determinism.py [scale] [props...]"""
import json, os, subprocess, sys, tempfile, shutil

VERIF = os.path.dirname(os.path.dirname(os.path.abspath(__file__)))
scale = sys.argv[1] if len(sys.argv) > 1 else "0.1"
props = sys.argv[2:] or ["C07", "C13", "C14", "C15", "C16", "C18", "C20"]
configs = [("base", {}, []), ("hashseed", {"PYTHONHASHSEED": "12345"}, []), ("nproc4", {"VERIF_NPROC": "4"}, []), ("seed2", {"VERIF_SEED": "7"}, []), ("seed2-again", {"VERIF_SEED": "7", "PYTHONHASHSEED": "99", "VERIF_NPROC": "7"}, [])]
ok = True
for p in props:
    digs = {}
    for name, env, prefix in configs + ([("aslr-off", {}, ["setarch", "-R"])] if p == "C07" else []):
        d = tempfile.mkdtemp(prefix="verif-selftest-", dir="/var/tmp")
        e = dict(os.environ); e.pop("PYTHONHASHSEED", None); e.update(env)
        e.update({"VERIF_SCALE": scale, "VERIF_EVIDENCE_DIR": d, "VERIF_REPLAY_DIR": d})
        r = subprocess.run(prefix + [os.path.join(VERIF, "check"), p], env=e, capture_output=True, text=True)
        if r.returncode != 0:
            print("%s/%s: exit %d\n%s" % (p, name, r.returncode, r.stdout[-800:])); ok = False
        try:
            ev = json.load(open(os.path.join(d, p + ".json")))
            c = ev["coverage"]
            if p == "C07":
                dig = {k: v.get("batch_digest") for k, v in c["layers"].items()}
            else:
                dig = c["batch_digest"]
            digs[name] = (dig, c["evaluations"], c["distinct_nontrivial"])
        except Exception as exc:
            print("%s/%s: no evidence (%s)" % (p, name, exc)); ok = False
        shutil.rmtree(d, ignore_errors=True)
    same1 = len({json.dumps(digs[n], sort_keys=True) for n in digs if not n.startswith("seed2")}) == 1
    same2 = len({json.dumps(digs[n], sort_keys=True) for n in digs if n.startswith("seed2")}) == 1
    differ = digs.get("base") != digs.get("seed2")
    print("%s: same seed -> identical digests: %s / %s ; other seed -> other digest: %s   %s" % (p, same1, same2, differ, digs.get("base")))
    ok = ok and same1 and same2 and differ
print("DETERMINISM SELFTEST", "PASSED" if ok else "FAILED")
sys.exit(0 if ok else 1)
