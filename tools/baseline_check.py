"""Run the repository's pinned test suite and compare with /root/.vp/BASELINE.json (stable_pass must still pass)."""
import json, subprocess, sys, xml.etree.ElementTree as ET, os, tempfile
base = json.load(open("/root/.vp/BASELINE.json"))
out = tempfile.mktemp(suffix=".xml", dir="/var/tmp")
env = dict(os.environ)
for k in list(env):
    if k.startswith("VERIF") or k.startswith("DTAIDISTANCE_VERIF"):
        env.pop(k)
if os.environ.get("BASELINE_REPO"):
    env["PYTHONPATH"] = os.path.join(os.environ["BASELINE_REPO"], "src")
subprocess.run(["/venv/bin/python", "-m", "pytest", "-ra", "-q", "-p", "no:cacheprovider", "--timeout=900",
                "--continue-on-collection-errors", "--junitxml=" + out], cwd=os.environ.get("BASELINE_REPO", "/repo"), env=env,
               stdout=subprocess.DEVNULL, stderr=subprocess.DEVNULL)
passed = set()
for tc in ET.parse(out).getroot().iter("testcase"):
    name = tc.get("classname") + "::" + tc.get("name")
    if not any(ch.tag in ("failure", "error", "skipped") for ch in tc):
        passed.add(name)
os.remove(out)
missing = [t for t in base["stable_pass"] if t not in passed]
print("baseline stable_pass: %d, passing now: %d, missing: %d" % (len(base["stable_pass"]), len(passed & set(base["stable_pass"])), len(missing)))
for m in missing:
    print("  NOT PASSING:", m)
newpass = sorted(passed - set(base["stable_pass"]))
if newpass:
    print("additionally passing now:", newpass)
sys.exit(1 if missing else 0)
