#!/bin/sh
# usage: eval_seed.sh <agent-tag e.g. c14a> <PROP> [scale] [testfiles...]
# Confirms a seeded change produced by an independent agent IN A FRESH worktree of its own (patch applied to /repo HEAD,
# extensions rebuilt if the patch touches C/Cython sources): demo fails with it / passes without it, named tests pass
# with it.  Stores it under /verif/seeded/<PROP>-<tag>/ and runs the check against it (again in a scratch worktree).
tag=$1; prop=$2; scale=${3:-0.5}; shift 3 2>/dev/null
out=/tmp/seed-$tag-out
dest=/verif/seeded/$prop-$tag
mkdir -p $dest
cp $out/patch.diff $out/demo.py $out/notes.md $dest/ 2>/dev/null
cache=$(/venv/bin/python /verif/sim/build.py | tail -1)
wt=/tmp/evalseed-$$
git -C /repo worktree add -q --detach $wt HEAD || exit 3
trap 'git -C /repo worktree remove --force '$wt' >/dev/null 2>&1' EXIT
( cd $wt && git apply $dest/patch.diff ) || { echo "PATCH DOES NOT APPLY to /repo HEAD"; exit 3; }
if grep -q '^+++ .*\.\(c\|h\|pyx\|pxd\)$' $dest/patch.diff; then
  echo "--- patch touches C/Cython sources: building"
  ( cd $wt && /venv/bin/python setup.py build_ext --inplace -j 8 > /tmp/evalseed-build-$$.log 2>&1 ) || { echo "BUILD FAILED"; tail -5 /tmp/evalseed-build-$$.log; exit 3; }
  rm -f /tmp/evalseed-build-$$.log
else
  cp $cache/pkg/dtaidistance/*.so $wt/src/dtaidistance/
fi
echo "--- demo on unchanged tree (expects exit 0)"
( cd /var/tmp && PYTHONPATH=$cache/pkg timeout 900 /venv/bin/python $dest/demo.py > $dest/demo_clean.log 2>&1; echo "exit=$?" )
echo "--- demo with the change (expects exit 1)"
( cd $wt && PYTHONPATH=$wt/src timeout 900 /venv/bin/python $dest/demo.py > $dest/demo_patched.log 2>&1; echo "exit=$?"; tail -3 $dest/demo_patched.log | cut -c1-200 )
if [ $# -gt 0 ]; then
  echo "--- tests with the change: $@"
  ( cd $wt && PYTHONPATH=$wt/src timeout 1500 /venv/bin/python -m pytest -q -p no:cacheprovider --timeout=900 "$@" 2>&1 | tail -2 )
fi
echo "--- check $prop against the change"
TAILN=${TAILN:-6} /verif/selftest_run.sh $dest/patch.diff $prop $scale 2>&1 | grep -v "^\[build\]" | cut -c1-220
