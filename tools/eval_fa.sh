#!/bin/sh
# usage: eval_fa.sh <agent tag e.g. c14 or c14b> <PROP> [scale] [suffix of the destination directory, e.g. -2]
# A behaviour-preserving change written by an independent agent: store it under /verif/seeded/preserving-<PROP>/ and run the
# check against it in a scratch worktree.  Expected: exit 0 (no alarm).
tag=$1; prop=$2; scale=${3:-0.5}; suffix=$4
out=/tmp/fa-$tag-out; wtagent=/tmp/fa-$tag
dest=/verif/seeded/preserving-$prop$suffix
mkdir -p $dest
git -C $wtagent diff > $dest/patch.diff
cp $out/notes.md $out/check_property.py $dest/ 2>/dev/null
wc -l $dest/patch.diff
TAILN=${TAILN:-6} /verif/selftest_run.sh $dest/patch.diff $prop $scale 2>&1 | grep -v "^\[build\]\|KNOWN" | cut -c1-250
