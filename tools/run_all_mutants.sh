#!/bin/sh
# Runs every hand-written patch (selftest/mutants) and every independently seeded change (seeded/*/patch.diff) against the
# check of its property in scratch worktrees and writes selftest/RESULTS.md.  Expected: fa_* / *_fa_* stay clean (exit 0),
# everything else is reported (exit 1).   usage: run_all_mutants.sh [scale]
scale=${1:-0.3}
V=$(dirname "$(dirname "$(readlink -f "$0")")")
out=$V/selftest/RESULTS.md
echo "# Sensitivity and false-alarm runs (VERIF_SCALE=$scale of the quick tier, $(date -u +%Y-%m-%dT%H:%MZ), /repo at $(git -C /repo rev-parse --short HEAD))" > $out
echo "" >> $out
echo "| change | property | expected | exit | histories / runs | with violations | first classes reported |" >> $out
echo "|---|---|---|---|---|---|---|" >> $out
run() {
  patch=$1; prop=$2; expect=$3; name=$4
  log=/tmp/mut-$$.log
  TAILN=400 $V/selftest_run.sh $patch $prop $scale > $log 2>&1
  code=$(grep -o 'exit=[0-9]*' $log | tail -1 | cut -d= -f2)
  runs=$(grep -o '\] [0-9]* histories' $log | head -1 | grep -o '[0-9]*')
  [ -z "$runs" ] && runs=$(grep -o '[0-9]* simulated parallel runs\|layer [BC]: [0-9]* runs' $log | grep -o '[0-9]*' | paste -sd+ | bc)
  viol=$(grep -o '[0-9]* histories with violations' $log | head -1 | grep -o '^[0-9]*')
  classes=$(grep -o 'replay=[^ ]*' $log | sed 's/.*-[0-9]*-//; s/\.json//' | sort | uniq -c | sort -rn | head -3 | awk '{printf "%s(%s) ", $2, $1}')
  echo "| $name | $prop | $expect | $code | ${runs:-?} | ${viol:--} | ${classes:--} |" >> $out
  echo "$name $prop expect=$expect exit=$code"
  rm -f $log
}
for p in $V/selftest/mutants/*.patch; do
  n=$(basename $p .patch)
  case $n in
    fa_*) prop=$(echo $n | sed 's/fa_\(c[0-9]*\)_.*/\1/' | tr a-z A-Z); exp=0 ;;
    *_fa_*) prop=$(echo $n | sed 's/\(c[0-9]*\)_.*/\1/' | tr a-z A-Z); exp=0 ;;
    *) prop=$(echo $n | sed 's/\(c[0-9]*\)_.*/\1/' | tr a-z A-Z); exp=1 ;;
  esac
  run $p $prop $exp "mutants/$n"
done
for d in $V/seeded/*/; do
  n=$(basename $d)
  [ -f $d/patch.diff ] || continue      # seeded/_historic: changes that apply to an earlier /repo only
  case $n in
    preserving-*) prop=$(echo $n | cut -d- -f2); run $d/patch.diff $prop 0 "seeded/$n" ;;
    *) prop=$(echo $n | cut -d- -f1); run $d/patch.diff $prop 1 "seeded/$n" ;;
  esac
done
echo "" >> $out
echo "wrote $out"
