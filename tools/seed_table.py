"""Regenerates the table of DESIGN.md section 13.1 (between the markers <!-- seeded-table-begin/end -->) from seeded/*/meta.json."""
import glob, json, re
rows = []
n = miss = 0
for f in sorted(glob.glob("/verif/seeded/C*/meta.json")):
    m = json.load(open(f))
    name = f.split("/")[-2]
    cr = m["check_result"]
    first = cr.get("first_evaluation", "reported")
    n += 1
    miss += first == "missed"
    cell = lambda s: str(s).replace("|", "\\|").replace("\n", " ")
    rows.append("| %s | %s | %s | %s |" % (name, cell(m["needs_to_manifest"]), "caught" if first == "reported" else "missed, then caught after strengthening",
                                          cell(cr["detail"])))
table = "| seeded change | needs, to manifest | at first evaluation | how the check sees it now |\n|---|---|---|---|\n" + "\n".join(rows)
p = "/verif/DESIGN.md"
s = open(p).read()
s2 = re.sub(r"(<!-- seeded-table-begin -->\n).*?(\n<!-- seeded-table-end -->)", lambda mm: mm.group(1) + table + mm.group(2), s, flags=re.S)
open(p, "w").write(s2)
print("%d seeded changes, %d missed at first evaluation, %d reported at once" % (n, miss, n - miss))
